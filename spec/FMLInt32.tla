---------------------------- MODULE FMLInt32 ----------------------------
(* Signed 32-bit integer arithmetic of FML (C09), written so that TLC's own 32-bit
   integers never overflow: TLC raises an error on overflow instead of wrapping, so a
   spec expression can never silently agree with a wrapped implementation result.
   A value is split into two unsigned 16-bit limbs of its two's-complement form.   *)
EXTENDS Integers

MAXI == 2147483647
MINI == -2147483647 - 1
B16  == 65536

IsInt32(a) == a \in Int /\ a >= MINI /\ a <= MAXI

Lo(a) == a % B16                       \* TLC: % is floor-mod, result in 0..65535
Hi(a) == (a \div B16) % B16            \* floor division keeps two's complement for negatives
FromHL(h, l) == IF h >= 32768 THEN ((h - 32768) * B16 + l) + MINI ELSE h * B16 + l

\* + - * wrap modulo 2^32
AddW(a, b) == LET l == Lo(a) + Lo(b)
                  h == (Hi(a) + Hi(b) + (l \div B16)) % B16
              IN FromHL(h, l % B16)
NotW(a) == FromHL(65535 - Hi(a), 65535 - Lo(a))
NegW(a) == AddW(NotW(a), 1)
SubW(a, b) == AddW(a, NegW(b))
\* 16x16 -> <<low16, high16>> via 8-bit limbs (all partial sums < 2^26)
Mul16(x, y) ==
  LET x0 == x % 256  x1 == x \div 256  y0 == y % 256  y1 == y \div 256
      p00 == x0 * y0  p01 == x0 * y1  p10 == x1 * y0  p11 == x1 * y1
      mid == p01 + p10
      low == p00 + (mid % 256) * 256
  IN << low % B16, (p11 + (mid \div 256) + (low \div B16)) % B16 >>
MulW(a, b) ==
  LET ll == Mul16(Lo(a), Lo(b))
      h == (ll[2] + Mul16(Lo(a), Hi(b))[1] + Mul16(Hi(a), Lo(b))[1]) % B16
  IN FromHL(h, ll[1])

\* / truncates toward zero, % takes the dividend's sign; both undefined (the program fails)
\* for a zero divisor and for MIN / -1
AbsI(a) == IF a < 0 THEN -a ELSE a       \* only used when a # MINI
DivDefined(a, b) == b # 0 /\ ~(a = MINI /\ b = -1)
DivT(a, b) == IF a = MINI
              THEN \* MINI = -(2^31): q = -(2^31 \div |b|) computed without negating MINI
                   IF b = MINI THEN 1 ELSE IF b = 1 THEN MINI
                   ELSE LET ab == AbsI(b)
                            q1 == (MAXI \div ab)                 \* floor((2^31-1)/|b|)
                            r1 == MAXI - q1 * ab
                            q == IF r1 = ab - 1 THEN q1 + 1 ELSE q1   \* floor(2^31/|b|)
                        IN IF b < 0 THEN q ELSE -q
              ELSE IF b = MINI THEN 0
              ELSE LET q == AbsI(a) \div AbsI(b) IN IF (a < 0) # (b < 0) THEN -q ELSE q
RemT(a, b) == SubW(a, MulW(b, DivT(a, b)))

\* little-endian bytes of the two's-complement representation (the file format's i32)
I32Bytes(a) == << Lo(a) % 256, Lo(a) \div 256, Hi(a) % 256, Hi(a) \div 256 >>
I32FromBytes(b0, b1, b2, b3) == FromHL(b2 + 256 * b3, b0 + 256 * b1)
=============================================================================
