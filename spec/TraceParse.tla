------------------------------ MODULE TraceParse ------------------------------
(* impl -> spec for the parser (C07): recorded pairs (tree the text denotes, tree the real
   parser returned).  Input (env PAIRS): ndjson of [id, expected, parsed, status].
   expected = the spec-generated tree (MC_Syntax) or the AST a text was printed from; parsed =
   projection of TopLevelParser's result; status = "ok" | "err" | "panic".  The text is accepted
   iff the expected tree lies in the parser's range, and then it must be that tree.          *)
EXTENDS FMLSyntax, Json, IOUtils
VARIABLES t, verdict
ASSUME TLCSet(1, ndJsonDeserialize(IOEnv.PAIRS))
Rec == TLCGet(1)
Judge(r) == IF ~InParserRange(r.expected) THEN "expected-tree-outside-parser-range"
            ELSE IF r.status # "ok" THEN "rejected"
            ELSE IF r.parsed # r.expected THEN "different-tree" ELSE "ok"
Init == t \in 1..Len(Rec) /\ verdict = "pending"
Next == verdict = "pending" /\ verdict' = Judge(Rec[t]) /\ t' = t
Report == verdict = "pending" \/ PrintT(<<"VERDICT", ToJson([id |-> Rec[t].id, verdict |-> verdict])>>)
=============================================================================
