------------------------------ MODULE MC_Objects ------------------------------
(* C14 generator (spec -> impl).  Two families, as descriptors the driver turns into programs:
   dispatch:  a parent chain of 0..3 objects ending in null / an integer (5, 0) / a boolean (true, false) / an array (2 elements, empty),
              each level defining one of the member sets in Defs (method m, operator +, get,
              set; overriding included), and one call on the outermost object: m with the
              right and a wrong argument count, the operators + and &, == null, != 5 (and their Feeny spellings
              eq / neq by name), a[i], a[i] <- v, get and set by name, an unknown method, a field read;
   alias:     a heap value (object or array) reachable through two storage locations of kinds
              variable / argument / field / array element / this, mutated through the first
              (field set or element set) and observed through the second; and the same with
              integers, booleans and null, which are values.
   FMLSource (run by TLC) prescribes the outcome of each program.                          *)
EXTENDS Integers, Sequences, TLC, Json, IOUtils
VARIABLES d

Ends == {"null", "int", "bool", "arr", "false", "zero", "arr0"}     \* the last three: the falsy / empty values of each kind (a parent is absent only when it is null)
Defs == {"", "m", "+", "g", "s", "m+gs", "M", "G", "a", ">", "F", "mF", "0"}     \* 0: a level without any member at all (not even the tag field every other level has): still an object of its own; F: a FIELD named m (fields and methods are separate namespaces), mF: both a field m and a method m; M: m with two parameters, G: get without parameters (overriding with a different parameter count), a: a method named add (a Feeny spelling used as an ordinary name)
\* (operators with a parameter: TLC evaluates every parameterless constant definition when it starts, needed or not)
Chains(maxdepth) == UNION {[1..n -> Defs] : n \in 0..maxdepth}
Calls == {"m1", "m0", "m2", "plus", "and", "index", "setindex", "get", "set", "zz", "field", "fieldm", "eqnull", "ne5", "feq", "fneq", "add1", "plus0", "plus2", "lt3", "gt1", "ge1", "plus_stmt", "m1_stmt", "setindex_stmt"}    \* _stmt: the call in statement position, its value discarded (it must still be dispatched)
Kinds == {"var", "arg", "field", "elem", "this"}
Dispatch(maxdepth) == {<<"dispatch", e, c>> \o ch : e \in Ends, c \in Calls, ch \in Chains(maxdepth)}
Alias == {<<"alias", target, k1, k2, mut>> : target \in {"obj", "arr"}, k1 \in Kinds, k2 \in Kinds, mut \in {"setfield", "setelem", "method"}}
Value == {<<"value", v, k1, k2>> : v \in {"int", "bool", "null"}, k1 \in Kinds \ {"this"}, k2 \in Kinds \ {"this"}}
\* quick tier (env STRIDE present): every descriptor with a chain of depth <= 1, all aliasing / value templates, and a sample (by position
\* hash, shifted by OFFSET) of the deeper dispatch descriptors: 1/16 of depth 2, 1/160 of depth 3.  The sample is built from sampled chains,
\* so that the full product (290 000 descriptors, 80 s) is only enumerated in the thorough tier.
Quick == "STRIDE" \in DOMAIN IOEnv
Offset == IF "OFFSET" \in DOMAIN IOEnv THEN CHOOSE k \in 0..199 : ToString(k) = IOEnv.OFFSET ELSE 0
DefSeq == <<"", "m", "+", "g", "s", "m+gs", "M", "G", "a", ">", "F", "mF", "0">>
CallSeq == <<"m1", "m0", "m2", "plus", "and", "index", "setindex", "get", "set", "zz", "field", "fieldm", "eqnull", "ne5", "feq", "fneq", "add1", "plus0", "plus2", "lt3", "gt1", "ge1", "plus_stmt", "m1_stmt", "setindex_stmt">>
EndSeq == <<"null", "int", "bool", "arr", "false", "zero", "arr0">>
Idx(seq, v) == CHOOSE i \in 1..Len(seq) : seq[i] = v
ASSUME {DefSeq[i] : i \in 1..Len(DefSeq)} = Defs /\ {CallSeq[i] : i \in 1..Len(CallSeq)} = Calls /\ {EndSeq[i] : i \in 1..Len(EndSeq)} = Ends
Chains3S(k) == {ch \in [1..k -> Defs] : (Idx(DefSeq, ch[1]) * 17 + Idx(DefSeq, ch[2]) * 31 + Idx(DefSeq, ch[3]) * 43) % 10 = Offset % 10}
H2(x) == Idx(EndSeq, x[2]) * 5 + Idx(CallSeq, x[3]) * 11 + Idx(DefSeq, x[4]) * 17 + Idx(DefSeq, x[5]) * 3
QuickDispatch == Dispatch(1)
                 \cup {x \in {<<"dispatch", e, c>> \o ch : e \in Ends, c \in Calls, ch \in [1..2 -> Defs] \cup Chains3S(3)} : H2(x) % 16 = Offset % 16}
Init == d \in (IF Quick THEN QuickDispatch ELSE Dispatch(3)) \cup Alias \cup Value
Next == FALSE /\ UNCHANGED d
Report == PrintT(<<"REPLAY", ToJson([d |-> d])>>)
=============================================================================
