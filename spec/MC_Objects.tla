------------------------------ MODULE MC_Objects ------------------------------
(* C14 generator (spec -> impl).  Two families, as descriptors the driver turns into programs:
   dispatch:  a parent chain of 0..3 objects ending in null / an integer (5, 0) / a boolean (true, false) / an array (2 elements, empty),
              each level defining one of the member sets in Defs (method m, operator +, get,
              set; overriding included), and one call on the outermost object: m with the
              right and a wrong argument count, the operators + and &, == null, != 5 (and their Feeny spellings
              eq / neq by name), a[i], a[i] <- v, get and set by name, an unknown method, a field read;
   alias:     a heap value (object or array) reachable through two storage locations of kinds
              variable / argument / field / array element / this, mutated through the first
              (field set or element set) and observed through the second; and the same with
              integers, booleans and null, which are values.
   FMLSource (run by TLC) prescribes the outcome of each program.                          *)
EXTENDS Integers, Sequences, TLC, Json, IOUtils
VARIABLES d

Ends == {"null", "int", "bool", "arr", "false", "zero", "arr0"}     \* the last three: the falsy / empty values of each kind (a parent is absent only when it is null)
Defs == {"", "m", "+", "g", "s", "m+gs", "M", "G", "a", ">", "F", "mF"}     \* F: a FIELD named m (fields and methods are separate namespaces), mF: both a field m and a method m; M: m with two parameters, G: get without parameters (overriding with a different parameter count), a: a method named add (a Feeny spelling used as an ordinary name)
Chains == UNION {[1..n -> Defs] : n \in 0..3}
Calls == {"m1", "m0", "m2", "plus", "and", "index", "setindex", "get", "set", "zz", "field", "fieldm", "eqnull", "ne5", "feq", "fneq", "add1", "plus0", "plus2", "lt3", "gt1", "ge1"}
Kinds == {"var", "arg", "field", "elem", "this"}
Dispatch == {<<"dispatch", e, c>> \o ch : e \in Ends, c \in Calls, ch \in Chains}
Alias == {<<"alias", target, k1, k2, mut>> : target \in {"obj", "arr"}, k1 \in Kinds, k2 \in Kinds, mut \in {"setfield", "setelem", "method"}}
Value == {<<"value", v, k1, k2>> : v \in {"int", "bool", "null"}, k1 \in Kinds \ {"this"}, k2 \in Kinds \ {"this"}}
Init == d \in Dispatch \cup Alias \cup Value
Next == FALSE /\ UNCHANGED d
Report == PrintT(<<"REPLAY", ToJson([d |-> d])>>)
=============================================================================
