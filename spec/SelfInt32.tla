------------------------------ MODULE SelfInt32 ------------------------------
(* self-test of FMLInt32: TLC evaluates every operation on the pairs of env PAIRS and prints the
   results; bin/selftest compares them with arbitrary-precision arithmetic.                  *)
EXTENDS FMLInt32, Sequences, TLC, Json, IOUtils
VARIABLES t, res
ASSUME TLCSet(1, ndJsonDeserialize(IOEnv.PAIRS))
Rec == TLCGet(1)
Eval(a, b) == [a |-> a, b |-> b, add |-> AddW(a, b), sub |-> SubW(a, b), mul |-> MulW(a, b), divdef |-> DivDefined(a, b),
               div |-> IF DivDefined(a, b) THEN DivT(a, b) ELSE 0, rem |-> IF DivDefined(a, b) THEN RemT(a, b) ELSE 0,
               bytes |-> I32Bytes(a), back |-> I32FromBytes(I32Bytes(a)[1], I32Bytes(a)[2], I32Bytes(a)[3], I32Bytes(a)[4])]
Init == t \in 1..Len(Rec) /\ res = <<>>
Next == res = <<>> /\ res' = <<Eval(Rec[t].a, Rec[t].b)>> /\ t' = t
Report == res = <<>> \/ PrintT(<<"RESULT", ToJson(res[1])>>)
=============================================================================
