---------------------------- MODULE TraceParseText ----------------------------
(* impl -> spec for the whole front end on arbitrary TEXT (C07): FMLLexer + FMLParser decide
   from the code points alone whether the text is a program and which tree it denotes; the real
   parser must accept exactly the programs and return exactly that tree.
   Input (env TEXTS): ndjson of [id, cps, names : Seq([s, b]), status, parsed].            *)
EXTENDS FMLLexer, Json, IOUtils
VARIABLES t, verdict
ASSUME TLCSet(1, ndJsonDeserialize(IOEnv.TEXTS))
Rec == TLCGet(1)
Judge(r) == LET e == ParseText(r.cps, r.names) IN
            IF e.ok THEN (IF r.status # "ok" THEN "rejected-but-is-a-program" ELSE IF r.parsed # e.tree THEN "different-tree" ELSE "accepted")
            ELSE (IF r.status = "ok" THEN "accepted-but-is-not-a-program" ELSE "rejected")
Init == t \in 1..Len(Rec) /\ verdict = "pending"
Next == verdict = "pending" /\ verdict' = Judge(Rec[t]) /\ t' = t
Report == verdict = "pending" \/ PrintT(<<"VERDICT", ToJson([id |-> Rec[t].id, verdict |-> verdict])>>)
=============================================================================
