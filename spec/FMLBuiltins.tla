---------------------------- MODULE FMLBuiltins ----------------------------
(* Built-in method tables of null / integer / boolean / array receivers (C05, C09, C14):
   both the symbolic spellings and the Feeny spellings.  A result is [ok, v]; ok = FALSE is
   "the program fails".  Method names are byte sequences.                              *)
EXTENDS FMLValues

N_add == <<43>>  N_sub == <<45>> N_mul == <<42>> N_div == <<47>> N_mod == <<37>>
N_le == <<60,61>> N_ge == <<62,61>> N_lt == <<60>> N_gt == <<62>> N_eq == <<61,61>> N_ne == <<33,61>>
N_and == <<38>> N_or == <<124>> N_get == <<103,101,116>> N_set == <<115,101,116>>
F_add == <<97,100,100>> F_sub == <<115,117,98>> F_mul == <<109,117,108>> F_div == <<100,105,118>> F_mod == <<109,111,100>>
F_le == <<108,101>> F_ge == <<103,101>> F_lt == <<108,116>> F_gt == <<103,116>> F_eq == <<101,113>> F_neq == <<110,101,113>>
F_and == <<97,110,100>> F_or == <<111,114>>

Canon(name) == CASE name = F_add -> N_add [] name = F_sub -> N_sub [] name = F_mul -> N_mul [] name = F_div -> N_div
                 [] name = F_mod -> N_mod [] name = F_le -> N_le [] name = F_ge -> N_ge [] name = F_lt -> N_lt
                 [] name = F_gt -> N_gt [] name = F_eq -> N_eq [] name = F_neq -> N_ne [] name = F_and -> N_and
                 [] name = F_or -> N_or [] OTHER -> name

Bad == [ok |-> FALSE, v |-> Null]
Good(v) == [ok |-> TRUE, v |-> v]

IntOp(a, name0, argv) == LET name == Canon(name0) IN
  IF argv.k = "int" THEN LET b == argv.v IN
    CASE name = N_add -> Good(IntV(AddW(a, b)))
      [] name = N_sub -> Good(IntV(SubW(a, b)))
      [] name = N_mul -> Good(IntV(MulW(a, b)))
      [] name = N_div -> IF DivDefined(a, b) THEN Good(IntV(DivT(a, b))) ELSE Bad
      [] name = N_mod -> IF DivDefined(a, b) THEN Good(IntV(RemT(a, b))) ELSE Bad
      [] name = N_le -> Good(BoolV(a <= b))
      [] name = N_ge -> Good(BoolV(a >= b))
      [] name = N_lt -> Good(BoolV(a < b))
      [] name = N_gt -> Good(BoolV(a > b))
      [] name = N_eq -> Good(BoolV(a = b))
      [] name = N_ne -> Good(BoolV(a # b))
      [] OTHER -> Bad
  ELSE CASE name = N_eq -> Good(BoolV(FALSE))
         [] name = N_ne -> Good(BoolV(TRUE))
         [] OTHER -> Bad

BoolOp(a, name0, argv) == LET name == Canon(name0) IN
  IF argv.k = "bool" THEN LET b == argv.v IN
    CASE name = N_and -> Good(BoolV(a = 1 /\ b = 1))
      [] name = N_or  -> Good(BoolV(a = 1 \/ b = 1))
      [] name = N_eq  -> Good(BoolV(a = b))
      [] name = N_ne  -> Good(BoolV(a # b))
      [] OTHER -> Bad
  ELSE CASE name = N_eq -> Good(BoolV(FALSE))
         [] name = N_ne -> Good(BoolV(TRUE))
         [] OTHER -> Bad

NullOp(name0, argv) == LET name == Canon(name0) IN
  CASE name = N_eq -> Good(BoolV(argv.k = "null"))
    [] name = N_ne -> Good(BoolV(argv.k # "null"))
    [] OTHER -> Bad

\* primitive receivers take exactly one argument
PrimOp(recv, name, args) ==
  IF Len(args) # 1 THEN Bad
  ELSE CASE recv.k = "int"  -> IntOp(recv.v, name, args[1])
         [] recv.k = "bool" -> BoolOp(recv.v, name, args[1])
         [] recv.k = "null" -> NullOp(name, args[1])

\* arrays: get(i) and set(i, v); result [ok, v, elems] with the (possibly updated) element sequence
ArrOp(elems, name, args) ==
  IF name = N_get /\ Len(args) = 1 /\ args[1].k = "int" /\ args[1].v >= 0 /\ args[1].v < Len(elems)
  THEN [ok |-> TRUE, v |-> elems[args[1].v + 1], elems |-> elems]
  ELSE IF name = N_set /\ Len(args) = 2 /\ args[1].k = "int" /\ args[1].v >= 0 /\ args[1].v < Len(elems)
  THEN [ok |-> TRUE, v |-> args[2], elems |-> [elems EXCEPT ![args[1].v + 1] = args[2]]]
  ELSE [ok |-> FALSE, v |-> Null, elems |-> elems]
=============================================================================
