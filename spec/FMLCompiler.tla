----------------------------- MODULE FMLCompiler -----------------------------
(* A specification-level, independent compile scheme from the normalized AST to an abstract
   bytecode program of FMLBytecode (C05 "another compiler", design-level check of C01/C02).
   It is written from the README semantics and the instruction documentation, not from
   compiler.rs, and deliberately differs from the real compiler where the documentation leaves
   a choice (parameter `scheme`):
     scheme "A"  locals never reuse a slot; if = cond, branch then, <else>, goto end, then:, end:;
                 while = goto cond, body:, cond:, branch body
     scheme "B"  a block's slots are released when it ends (reuse); if = cond, branch then, goto else,
                 then: ..., goto end, else: ..., end:;  while = top:, cond, branch body, goto end, body:, ..., goto top, end:
   Both: every expression nets exactly one value (a function definition in value position
   yields null), discarded values are dropped, the temporaries of a compound array definition
   are hidden local slots (also at top level), labels are "L<k>" with one counter per program,
   the entry method has no trailing return (FMLLayout can add one), constants are pooled as
   atoms (first use), slots, methods (definition order, entry last), classes.

   Lower(e, keep, ctx) -> [code, ctx]; symbolic instructions [op, s, a, n] carry their constant
   `s` themselves; Assemble numbers everything.  Compile(pr, scheme) is defined for programs that
   pass FMLSource.StaticOK.                                                                  *)
EXTENDS FMLSource, FMLBytecode

NoSym == [k |-> "none"]
SInt(i) == [k |-> "int", i |-> i]
SBool(b) == [k |-> "bool", b |-> b]
SNull == [k |-> "null"]
SStr(bytes) == [k |-> "str", bytes |-> bytes]
SClass(id) == [k |-> "class", id |-> id]
SI(op, s, n) == [op |-> op, s |-> s, a |-> 0, n |-> n]
LI(op, a) == [op |-> op, s |-> NoSym, a |-> a, n |-> 0]
DropUnless(keep) == IF keep THEN <<>> ELSE <<LI(OP_DROP, 0)>>
LabelName(k) == <<76>> \o (LET RECURSIVE D(_) D(n) == IF n < 10 THEN <<48 + n>> ELSE D(n \div 10) \o <<48 + (n % 10)>> IN D(k))

\* innermost scope binding n, or -1
SlotOf(ctx, n) == LET hits == {i \in 1..Len(ctx.scopes) : n \in DOMAIN ctx.scopes[i]} IN
                  IF hits = {} THEN -1 ELSE ctx.scopes[CHOOSE i \in hits : \A j \in hits : j <= i][n]
GlobalRegion(ctx) == ctx.top /\ ctx.scopes = <<>>
NewSlot(ctx) == [ctx EXCEPT !.nslots = @ + 1, !.maxslots = IF ctx.nslots + 1 > @ THEN ctx.nslots + 1 ELSE @]
NewLabels(ctx, k) == [ctx EXCEPT !.lbl = @ + k]
AddGlobal(ctx, n) == IF \E i \in 1..Len(ctx.globals) : ctx.globals[i] = n THEN ctx ELSE [ctx EXCEPT !.globals = Append(@, n)]

RECURSIVE Lower(_,_,_,_), LowerSeq(_,_,_,_,_,_), LowerArgs(_,_,_,_,_), LowerCallable(_,_,_,_,_)
LowerArgs(pr, sch, es, i, r) == IF i > Len(es) THEN r ELSE
   LET x == Lower(pr, sch, es[i], [keep |-> TRUE, ctx |-> r.ctx]) IN LowerArgs(pr, sch, es, i + 1, [code |-> r.code \o x.code, ctx |-> x.ctx])
LowerSeq(pr, sch, es, i, keep, r) == IF i > Len(es) THEN r ELSE
   LET x == Lower(pr, sch, es[i], [keep |-> keep /\ i = Len(es), ctx |-> r.ctx]) IN LowerSeq(pr, sch, es, i + 1, keep, [code |-> r.code \o x.code, ctx |-> x.ctx])
\* a function or method body: fresh frame holding only the parameters (methods: `this` first)
LowerCallable(pr, sch, f, params, ctx) ==
  LET sc == [n \in {params[i] : i \in 1..Len(params)} |-> (CHOOSE i \in 1..Len(params) : params[i] = n) - 1]
      inner == [ctx EXCEPT !.scopes = <<sc>>, !.nslots = Len(params), !.maxslots = Len(params), !.top = FALSE]
      b == Lower(pr, sch, f.body, [keep |-> TRUE, ctx |-> inner])
      m == [name |-> pr.nb[f.n], arity |-> Len(params), locals |-> b.ctx.maxslots - Len(params), code |-> Append(b.code, LI(OP_RETURN, 0))] IN
  [mid |-> Len(b.ctx.methods) + 1,
   ctx |-> [b.ctx EXCEPT !.scopes = ctx.scopes, !.nslots = ctx.nslots, !.maxslots = ctx.maxslots, !.top = ctx.top, !.methods = Append(@, m)]]

Lower(pr, sch, e, q) ==
  LET keep == q.keep  ctx == q.ctx
      call(code, ctx2, op, name, n) == [code |-> code \o <<SI(op, SStr(name), n)>> \o DropUnless(keep), ctx |-> ctx2] IN
  CASE e.t = "Int"  -> [code |-> <<SI(OP_LIT, SInt(e.v), 0)>> \o DropUnless(keep), ctx |-> ctx]
    [] e.t = "Bool" -> [code |-> <<SI(OP_LIT, SBool(e.v = 1), 0)>> \o DropUnless(keep), ctx |-> ctx]
    [] e.t = "Null" -> [code |-> <<SI(OP_LIT, SNull, 0)>> \o DropUnless(keep), ctx |-> ctx]
    [] e.t = "Var"  -> LET s == SlotOf(ctx, e.n) IN
                       [code |-> <<IF s >= 0 THEN LI(OP_GETLOC, s) ELSE SI(OP_GETGLB, SStr(pr.nb[e.n]), 0)>> \o DropUnless(keep), ctx |-> ctx]
    [] e.t = "Let"  -> LET x == Lower(pr, sch, e.e, [keep |-> TRUE, ctx |-> ctx]) IN
                       IF GlobalRegion(x.ctx)
                       THEN [code |-> x.code \o <<SI(OP_SETGLB, SStr(pr.nb[e.n]), 0)>> \o DropUnless(keep), ctx |-> AddGlobal(x.ctx, e.n)]
                       ELSE LET d == Len(x.ctx.scopes)  s == x.ctx.nslots
                                c2 == [NewSlot(x.ctx) EXCEPT !.scopes[d] = Bind(@, e.n, s)] IN
                            [code |-> x.code \o <<LI(OP_SETLOC, s)>> \o DropUnless(keep), ctx |-> c2]
    [] e.t = "Assign" -> LET x == Lower(pr, sch, e.e, [keep |-> TRUE, ctx |-> ctx])
                             s == SlotOf(x.ctx, e.n) IN
                         [code |-> x.code \o <<IF s >= 0 THEN LI(OP_SETLOC, s) ELSE SI(OP_SETGLB, SStr(pr.nb[e.n]), 0)>> \o DropUnless(keep), ctx |-> x.ctx]
    [] e.t = "Block" -> LET c1 == [ctx EXCEPT !.scopes = Append(@, EmptyMap)]
                            r == LowerSeq(pr, sch, e.es, 1, keep, [code |-> <<>>, ctx |-> c1])
                            c2 == [r.ctx EXCEPT !.scopes = SubSeq(@, 1, Len(@) - 1)] IN
                        [code |-> r.code, ctx |-> IF sch = "B" THEN [c2 EXCEPT !.nslots = ctx.nslots] ELSE c2]
    [] e.t = "Top"  -> LowerSeq(pr, sch, e.es, 1, keep, [code |-> <<>>, ctx |-> ctx])
    [] e.t = "Fun"  -> LET c == LowerCallable(pr, sch, e, e.params, ctx) IN
                       [code |-> IF keep THEN <<SI(OP_LIT, SNull, 0)>> ELSE <<>>, ctx |-> [c.ctx EXCEPT !.funs = Append(@, c.mid)]]
    [] e.t = "If"   -> LET k == ctx.lbl
                           c == Lower(pr, sch, e.c, [keep |-> TRUE, ctx |-> NewLabels(ctx, 3)])
                           Lthen == SStr(LabelName(k))  Lend == SStr(LabelName(k + 1))  Lelse == SStr(LabelName(k + 2)) IN
                       IF sch = "A" THEN
                            LET b == Lower(pr, sch, e.b, [keep |-> keep, ctx |-> c.ctx])
                                a == Lower(pr, sch, e.a, [keep |-> keep, ctx |-> b.ctx]) IN
                            [code |-> c.code \o <<SI(OP_BRANCH, Lthen, 0)>> \o b.code \o <<SI(OP_JUMP, Lend, 0), SI(OP_LABEL, Lthen, 0)>> \o a.code \o <<SI(OP_LABEL, Lend, 0)>>, ctx |-> a.ctx]
                       ELSE LET a == Lower(pr, sch, e.a, [keep |-> keep, ctx |-> c.ctx])
                                b == Lower(pr, sch, e.b, [keep |-> keep, ctx |-> a.ctx]) IN
                            [code |-> c.code \o <<SI(OP_BRANCH, Lthen, 0), SI(OP_JUMP, Lelse, 0), SI(OP_LABEL, Lthen, 0)>> \o a.code
                                      \o <<SI(OP_JUMP, Lend, 0), SI(OP_LABEL, Lelse, 0)>> \o b.code \o <<SI(OP_LABEL, Lend, 0)>>, ctx |-> b.ctx]
    [] e.t = "While" -> LET k == ctx.lbl
                            Lbody == SStr(LabelName(k))  Lcond == SStr(LabelName(k + 1))  Lend == SStr(LabelName(k + 2))
                            tail == IF keep THEN <<SI(OP_LIT, SNull, 0)>> ELSE <<>> IN
                        IF sch = "A" THEN
                             LET b == Lower(pr, sch, e.b, [keep |-> FALSE, ctx |-> NewLabels(ctx, 3)])
                                 c == Lower(pr, sch, e.c, [keep |-> TRUE, ctx |-> b.ctx]) IN
                             [code |-> <<SI(OP_JUMP, Lcond, 0), SI(OP_LABEL, Lbody, 0)>> \o b.code \o <<SI(OP_LABEL, Lcond, 0)>> \o c.code \o <<SI(OP_BRANCH, Lbody, 0)>> \o tail, ctx |-> c.ctx]
                        ELSE LET c == Lower(pr, sch, e.c, [keep |-> TRUE, ctx |-> NewLabels(ctx, 3)])
                                 b == Lower(pr, sch, e.b, [keep |-> FALSE, ctx |-> c.ctx]) IN
                             [code |-> <<SI(OP_LABEL, Lcond, 0)>> \o c.code \o <<SI(OP_BRANCH, Lbody, 0), SI(OP_JUMP, Lend, 0), SI(OP_LABEL, Lbody, 0)>> \o b.code
                                       \o <<SI(OP_JUMP, Lcond, 0), SI(OP_LABEL, Lend, 0)>> \o tail, ctx |-> b.ctx]
    [] e.t = "Call" -> LET r == LowerArgs(pr, sch, e.args, 1, [code |-> <<>>, ctx |-> ctx]) IN call(r.code, r.ctx, OP_CALLF, pr.nb[e.n], Len(e.args))
    [] e.t = "MCall" -> LET r == LowerArgs(pr, sch, <<e.o>> \o e.args, 1, [code |-> <<>>, ctx |-> ctx]) IN call(r.code, r.ctx, OP_CALLM, pr.nb[e.n], Len(e.args) + 1)
    [] e.t = "Index" -> LET r == LowerArgs(pr, sch, <<e.o, e.i>>, 1, [code |-> <<>>, ctx |-> ctx]) IN call(r.code, r.ctx, OP_CALLM, N_get, 2)
    [] e.t = "SetIndex" -> LET r == LowerArgs(pr, sch, <<e.o, e.i, e.e>>, 1, [code |-> <<>>, ctx |-> ctx]) IN call(r.code, r.ctx, OP_CALLM, N_set, 3)
    [] e.t = "Print" -> LET r == LowerArgs(pr, sch, e.args, 1, [code |-> <<>>, ctx |-> ctx]) IN call(r.code, r.ctx, OP_PRINT, e.f, Len(e.args))
    [] e.t = "GetField" -> LET r == Lower(pr, sch, e.o, [keep |-> TRUE, ctx |-> ctx]) IN call(r.code, r.ctx, OP_GETFLD, pr.nb[e.n], 0)
    [] e.t = "SetField" -> LET r == LowerArgs(pr, sch, <<e.o, e.e>>, 1, [code |-> <<>>, ctx |-> ctx]) IN call(r.code, r.ctx, OP_SETFLD, pr.nb[e.n], 0)
    [] e.t = "Array" ->
         IF Trivial(e.init) THEN
              LET r == LowerArgs(pr, sch, <<e.size, e.init>>, 1, [code |-> <<>>, ctx |-> ctx]) IN
              [code |-> r.code \o <<LI(OP_ARRAY, 0)>> \o DropUnless(keep), ctx |-> r.ctx]
         ELSE \* size once and first, then the initializer once per element in index order; three hidden slots
              LET sz == Lower(pr, sch, e.size, [keep |-> TRUE, ctx |-> ctx])
                  s1 == sz.ctx.nslots  s2 == s1 + 1  s3 == s1 + 2
                  c1 == NewLabels(NewSlot(NewSlot(NewSlot(sz.ctx))), 2)
                  k == sz.ctx.lbl
                  Lb == SStr(LabelName(k))  Lc == SStr(LabelName(k + 1))
                  iv == Lower(pr, sch, e.init, [keep |-> TRUE, ctx |-> c1])
                  done == IF sch = "B" THEN [iv.ctx EXCEPT !.nslots = ctx.nslots] ELSE iv.ctx IN
              [code |-> sz.code \o <<LI(OP_SETLOC, s1), SI(OP_LIT, SNull, 0), LI(OP_ARRAY, 0), LI(OP_SETLOC, s2), LI(OP_DROP, 0),
                                     SI(OP_LIT, SInt(0), 0), LI(OP_SETLOC, s3), LI(OP_DROP, 0),
                                     SI(OP_JUMP, Lc, 0), SI(OP_LABEL, Lb, 0), LI(OP_GETLOC, s2), LI(OP_GETLOC, s3)>> \o iv.code
                        \o <<SI(OP_CALLM, SStr(N_set), 3), LI(OP_DROP, 0), LI(OP_GETLOC, s3), SI(OP_LIT, SInt(1), 0), SI(OP_CALLM, SStr(N_add), 2), LI(OP_SETLOC, s3), LI(OP_DROP, 0),
                             SI(OP_LABEL, Lc, 0), LI(OP_GETLOC, s3), LI(OP_GETLOC, s1), SI(OP_CALLM, SStr(N_lt), 2), SI(OP_BRANCH, Lb, 0)>>
                        \o (IF keep THEN <<LI(OP_GETLOC, s2)>> ELSE <<>>), ctx |-> done]
    [] e.t = "Object" ->
         LET RECURSIVE Members(_,_)
             \* parent first, then the members in order: field initializers are evaluated, methods are compiled
             Members(i, r) == IF i > Len(e.members) THEN r ELSE
                LET mb == e.members[i] IN
                IF mb.t = "Let" THEN LET x == Lower(pr, sch, mb.e, [keep |-> TRUE, ctx |-> r.ctx]) IN
                                     Members(i + 1, [code |-> r.code \o x.code, ctx |-> x.ctx, ms |-> Append(r.ms, [m |-> "slot", name |-> pr.nb[mb.n], mid |-> 0])])
                ELSE LET c == LowerCallable(pr, sch, mb, <<"this">> \o mb.params, r.ctx) IN
                     Members(i + 1, [code |-> r.code, ctx |-> c.ctx, ms |-> Append(r.ms, [m |-> "method", name |-> pr.nb[mb.n], mid |-> c.mid])])
             p == Lower(pr, sch, e.parent, [keep |-> TRUE, ctx |-> ctx])
             r == Members(1, [code |-> p.code, ctx |-> p.ctx, ms |-> <<>>])
             cid == Len(r.ctx.classes) + 1 IN
         [code |-> r.code \o <<SI(OP_OBJECT, SClass(cid), 0)>> \o DropUnless(keep), ctx |-> [r.ctx EXCEPT !.classes = Append(@, r.ms)]]

\* the array size must be stored before it is consumed: in the compound scheme the size value stays on the stack
\* for `array` (setlocal only peeks), so  <size>; setlocal s1; lit null; array  allocates the result array.

------------------------------------------------------------------------------
\* assembly: number the constants
RECURSIVE Uniq(_,_)
Uniq(s, acc) == IF s = <<>> THEN acc ELSE Uniq(Tail(s), IF \E i \in 1..Len(acc) : acc[i] = Head(s) THEN acc ELSE Append(acc, Head(s)))
PosIn(s, x) == CHOOSE i \in 1..Len(s) : s[i] = x
Assemble(lowered) ==
  LET ctx == lowered.ctx
      entry == [name |-> <<206,187,58>>, arity |-> 0, locals |-> ctx.maxslots, code |-> lowered.code]
      methods == Append(ctx.methods, entry)
      atomsOfCode(code) == SelectSeq([i \in 1..Len(code) |-> code[i].s], LAMBDA s : s.k \in {"int", "bool", "null", "str"})
      classSlots == Concat([c \in 1..Len(ctx.classes) |-> SelectSeq(ctx.classes[c], LAMBDA mb : mb.m = "slot")])
      slotNames == Uniq([i \in 1..Len(classSlots) |-> classSlots[i].name] \o [i \in 1..Len(ctx.globals) |-> lowered.nb[ctx.globals[i]]], <<>>)
      atoms == Uniq(Concat([m \in 1..Len(methods) |-> <<SStr(methods[m].name)>> \o atomsOfCode(methods[m].code)])
                    \o [i \in 1..Len(slotNames) |-> SStr(slotNames[i])], <<>>)
      na == Len(atoms)  ns == Len(slotNames)  nm == Len(methods)
      AtomIdx(s) == PosIn(atoms, s) - 1
      SlotIdx(nmb) == na + PosIn(slotNames, nmb) - 1
      MethIdx(j) == na + ns + j - 1
      ClassIdx(c) == na + ns + nm + c - 1
      ins(x) == [op |-> x.op, a |-> IF x.s.k = "none" THEN x.a ELSE IF x.s.k = "class" THEN ClassIdx(x.s.id) ELSE AtomIdx(x.s), n |-> x.n]
      atomConst(s) == CASE s.k = "int" -> [k |-> "int", i |-> s.i] [] s.k = "bool" -> [k |-> "bool", b |-> s.b] [] s.k = "null" -> [k |-> "null"]
                        [] s.k = "str" -> [k |-> "str", bytes |-> s.bytes]
      methConst(m) == [k |-> "method", name |-> AtomIdx(SStr(m.name)), arity |-> m.arity, locals |-> m.locals, code |-> [i \in 1..Len(m.code) |-> ins(m.code[i])]]
      classConst(ms) == [k |-> "class", members |-> [i \in 1..Len(ms) |-> IF ms[i].m = "slot" THEN SlotIdx(ms[i].name) ELSE MethIdx(ms[i].mid)]]
  IN [consts |-> [i \in 1..na |-> atomConst(atoms[i])] \o [i \in 1..ns |-> [k |-> "slot", name |-> AtomIdx(SStr(slotNames[i]))]]
                 \o [j \in 1..nm |-> methConst(methods[j])] \o [c \in 1..Len(ctx.classes) |-> classConst(ctx.classes[c])],
      globals |-> [i \in 1..Len(ctx.globals) |-> SlotIdx(lowered.nb[ctx.globals[i]])] \o [i \in 1..Len(ctx.funs) |-> MethIdx(ctx.funs[i])],
      entry |-> MethIdx(nm)]

Ctx0 == [scopes |-> <<>>, nslots |-> 0, maxslots |-> 0, lbl |-> 0, methods |-> <<>>, classes |-> <<>>, globals |-> <<>>, funs |-> <<>>, top |-> TRUE]
\* pr = FMLSource program record (MkProgram); defined when pr.static
Compile(pr, scheme) == LET l == Lower(pr, scheme, pr.ast, [keep |-> TRUE, ctx |-> Ctx0]) IN
                       Assemble([code |-> l.code, ctx |-> l.ctx, nb |-> pr.nb])
=============================================================================
