----------------------------- MODULE FMLSinkApa -----------------------------
(* Typed restatement of FMLSink (writer "all") for Apalache: an inductive invariant that gives
   PrefixInv and Complete for EVERY segment sequence within the generator bounds (up to 4
   segments of up to 4 bytes), not only the one sequence MC_Sink fixes.  Optional extra, not part
   of any claimed level.  Checked by:
     apalache-mc check --init=IndInit --inv=IndInv --length=1 FMLSinkApa.tla     (induction step)
     apalache-mc check --init=Init --inv=IndInv --length=0 FMLSinkApa.tla        (base case)
     apalache-mc check --init=IndInit --inv=Safety --length=0 FMLSinkApa.tla     (IndInv => PrefixInv /\ Complete) *)
EXTENDS Integers, Sequences, Apalache

VARIABLES
  \* @type: Seq(Seq(Int));
  segs,
  \* @type: Int;
  i,
  \* @type: Int;
  off,
  \* @type: Seq(Int);
  delivered,
  \* @type: Str;
  status

\* @type: Seq(Int);
EmptyBytes == <<>>
\* @type: (Seq(Seq(Int))) => Seq(Int);
Flat(ss) == LET \* @type: (Seq(Int), Seq(Int)) => Seq(Int);
                  Cat(acc, s) == acc \o s IN ApaFoldSeqLeft(Cat, EmptyBytes, ss)
\* @type: (Seq(Int), Seq(Int)) => Bool;
IsPrefix(a, b) == Len(a) <= Len(b) /\ SubSeq(b, 1, Len(a)) = a
\* @type: (Seq(Seq(Int))) => Bool;
SegsOK(ss) == Len(ss) <= 4 /\ \A k \in DOMAIN ss : Len(ss[k]) >= 1 /\ Len(ss[k]) <= 4

Init == /\ segs = Gen(4) /\ SegsOK(segs)
        /\ i = 1 /\ off = 0 /\ delivered = EmptyBytes /\ status = "writing"
Rest == SubSeq(segs[i], off + 1, Len(segs[i]))
Accept == /\ status = "writing" /\ i <= Len(segs)
          /\ \E n \in 1..4 :
               /\ n <= Len(segs[i]) - off
               /\ delivered' = delivered \o SubSeq(segs[i], off + 1, off + n)
               /\ IF off + n = Len(segs[i]) THEN i' = i + 1 /\ off' = 0 ELSE i' = i /\ off' = off + n
          /\ UNCHANGED <<status, segs>>
Fail == status = "writing" /\ i <= Len(segs) /\ status' = "error" /\ UNCHANGED <<i, off, delivered, segs>>
Finish == status = "writing" /\ i > Len(segs) /\ status' = "ok" /\ UNCHANGED <<i, off, delivered, segs>>
Stutter == UNCHANGED <<i, off, delivered, status, segs>>
Next == Accept \/ Fail \/ Finish \/ Stutter

\* what has been delivered is exactly the finished segments plus the accepted part of the current one
IndInv == /\ SegsOK(segs)
          /\ status \in {"writing", "ok", "error"}
          /\ i >= 1 /\ i <= Len(segs) + 1
          /\ off >= 0
          /\ (i <= Len(segs) => off < Len(segs[i]))
          /\ (i = Len(segs) + 1 => off = 0)
          /\ delivered = Flat(SubSeq(segs, 1, i - 1)) \o (IF i <= Len(segs) THEN SubSeq(segs[i], 1, off) ELSE EmptyBytes)
          /\ (status = "ok" => i = Len(segs) + 1)
IndInit == /\ segs = Gen(4) /\ i = Gen(1) /\ off = Gen(1) /\ delivered = Gen(16) /\ status = Gen(1) /\ IndInv
Safety == IsPrefix(delivered, Flat(segs)) /\ (status = "ok" => delivered = Flat(segs))
=============================================================================
