------------------------------- MODULE MC_Equiv -------------------------------
(* Design-level equivalence (C01, C02, C05): for every AST of the batch (env PROGS, the format
   of TraceSource) and every compile scheme, the abstract machine FMLVM running
   Compile(ast, scheme) and the README semantics FMLSource running the AST end with the same
   status and the same output; the compiled program is WellFormed.  One behaviour per
   (program, scheme): the source machine runs to its end, then the bytecode machine; every step
   is checked against both machines' step properties.  Each compiled program is also printed
   (TLA+ writer) so that the REAL VM can execute what this independent compiler produced.     *)
EXTENDS FMLCompiler, FMLVM, FMLLayout, Json, IOUtils
VARIABLES t, sch, phase, s, vm, n, verdict

ASSUME TLCSet(1, ndJsonDeserialize(IOEnv.PROGS))
Rec == TLCGet(1)
ASSUME TLCSet(2, [i \in 1..Len(Rec) |-> MkProgram(Rec[i])])
Prg(i) == TLCGet(2)[i]
Schemes == {"A", "B"}
ASSUME TLCSet(3, [i \in 1..Len(Rec) |-> IF Prg(i).static THEN [x \in Schemes |-> Compile(Prg(i), x)] ELSE <<>>])
Compiled(i, x) == TLCGet(3)[i][x]
ASSUME TLCSet(4, [i \in 1..Len(Rec) |-> IF Prg(i).static THEN [x \in Schemes |-> Load(Compiled(i, x))] ELSE <<>>])
Img(i, x) == TLCGet(4)[i][x]
Budget == 30000
NoVM == [st |-> "none"]

Init == \E i \in 1..Len(Rec), x \in Schemes :
          /\ t = i /\ sch = x /\ n = 0 /\ s = SrcInit(Prg(i)) /\ vm = NoVM
          /\ IF ~Prg(i).static THEN phase = "end" /\ verdict = "rejected-statically"
             ELSE IF ~WellFormed(Compiled(i, x)) THEN phase = "end" /\ verdict = "not-wellformed:" \o WhyNotWF(Compiled(i, x))
             ELSE IF ~Img(i, x).startable THEN phase = "end" /\ verdict = "not-startable"
             ELSE phase = "src" /\ verdict = "ok"
SrcRun == /\ phase = "src" /\ n < Budget
          /\ IF s.st = "run"
             THEN LET s2 == SrcStep(Prg(t), s) IN s' = s2 /\ vm' = vm /\ phase' = phase /\ verdict' = IF SrcStepOK(s, s2) THEN "ok" ELSE "spec-invariant-src"
             ELSE s' = s /\ vm' = VMInit(Img(t, sch)) /\ phase' = "vm" /\ verdict' = verdict
          /\ n' = n + 1 /\ UNCHANGED <<t, sch>>
VMRun == /\ phase = "vm" /\ n < Budget /\ verdict = "ok"
         /\ IF vm.st = "run"
            THEN LET v2 == VMStep(Img(t, sch), vm) IN vm' = v2 /\ phase' = phase /\ verdict' = IF StepOK(Img(t, sch), vm, v2) THEN "ok" ELSE "spec-invariant-vm"
            ELSE vm' = vm /\ phase' = "end" /\
                 verdict' = IF ~s.frag THEN "outside-fragment"
                            ELSE IF s.note = "cycle" \/ vm.note = "cycle" THEN (IF s.note = vm.note THEN "ok" ELSE "differ-cycle")
                            ELSE IF (s.st = "done") # (vm.st = "done") THEN "differ-status"
                            ELSE IF s.out # vm.out THEN "differ-output"
                            ELSE IF vm.st = "done" /\ Len(vm.stack) # 1 THEN "unbalanced-end"      \* every program nets exactly one value
                            ELSE "ok"
         /\ n' = n + 1 /\ UNCHANGED <<t, sch, s>>
Next == SrcRun \/ VMRun
Stop == phase = "end" \/ n >= Budget \/ (verdict # "ok")
Report == ~Stop \/ PrintT(<<"VERDICT", ToJson([id |-> Rec[t].id, scheme |-> sch, verdict |-> IF phase # "end" /\ verdict = "ok" THEN "budget" ELSE verdict, steps |-> n,
                                                src |-> s.st, vm |-> vm.st,
                                                bytes |-> IF Prg(t).static /\ phase = "end" /\ verdict \in {"ok", "outside-fragment"} THEN Encode(Compiled(t, sch)) ELSE <<>>])>>)
=============================================================================
