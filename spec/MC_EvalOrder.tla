------------------------------ MODULE MC_EvalOrder ------------------------------
(* C13 generator (spec -> impl): all typed expression shapes up to depth 2 in which every
   operand position holds either a marker leaf (a side-effecting, self-identifying
   subexpression: begin print("k;"); v end, v of the kind the position needs) or a nested
   shape of that kind whose own positions are marker leaves.  Printed in prefix notation; the
   driver numbers the markers in textual order; the order and multiplicity of the printed
   markers is prescribed by FMLSource (run by TLC) and must be what the real pipeline prints. *)
EXTENDS Integers, Sequences, FiniteSets, TLC, Json, IOUtils
VARIABLES shape

\* constructor signatures: result kind <- argument kinds
Sig == [ call0 |-> <<"int">>, call1 |-> <<"int", "int">>, call2 |-> <<"int", "int", "int">>, call3 |-> <<"int", "int", "int", "int">>,
         rcall2 |-> <<"int", "int", "int">>, rcall3 |-> <<"int", "int", "int", "int">>,     \* calls of one-line functions whose bodies use their parameters in another order than they declare them
         mcall |-> <<"int", "obj", "int", "int">>, op |-> <<"int", "int", "int">>, cmp |-> <<"bool", "int", "int">>,
         obj0 |-> <<"obj", "par">>, obj1 |-> <<"obj", "par", "int">>, obj2 |-> <<"obj", "par", "int", "int">>, obj3 |-> <<"obj", "par", "int", "int", "int">>,
         arrs |-> <<"arr", "size">>, arrc0 |-> <<"arr", "size0", "int">>, arrc1 |-> <<"arr", "size1", "int">>, arrc2 |-> <<"arr", "size2", "int">>, arrc3 |-> <<"arr", "size3", "int">>,
         index |-> <<"int", "arr", "idx">>, setindex |-> <<"int", "arr", "idx", "int">>, oindex |-> <<"int", "obj", "idx">>, osetindex |-> <<"int", "obj", "idx", "int">>, getfield |-> <<"int", "obj">>, setfield |-> <<"int", "obj", "int">>,
         if |-> <<"int", "bool", "int", "int">>,
         print0 |-> <<"null">>, print1 |-> <<"null", "int">>, print2 |-> <<"null", "int", "int">>, print3 |-> <<"null", "int", "int", "int">>,
         while0 |-> <<"null">>, while1 |-> <<"null">>, while2 |-> <<"null">>, let |-> <<"int", "int">>, assign |-> <<"int", "int">> ]
Cons == DOMAIN Sig
Res(c) == Sig[c][1]
Args(c) == Tail(Sig[c])
\* a `par` position accepts an object shape, everything else accepts shapes of its own kind; size / idx positions take leaves only
Produces(kind) == {c \in Cons : Res(c) = (IF kind = "par" THEN "obj" ELSE kind)}
Leaves(kind) == IF kind = "bool" THEN {<<"T">>, <<"F">>} ELSE {<<"L">>}
RECURSIVE Terms(_,_), ArgTuples(_,_)
\* all argument lists (concatenated prefix sequences) for the kind sequence ks
ArgTuples(ks, d) == IF ks = <<>> THEN {<<>>} ELSE {a \o rest : a \in Terms(Head(ks), d), rest \in ArgTuples(Tail(ks), d)}
Terms(kind, d) == Leaves(kind) \cup (IF d = 0 THEN {} ELSE UNION {{<<c>> \o as : as \in ArgTuples(Args(c), d - 1)} : c \in Produces(kind)})
Shapes == UNION {{<<c>> \o as : as \in ArgTuples(Args(c), 1)} : c \in Cons}
Init == shape \in Shapes
Next == FALSE /\ UNCHANGED shape
Report == PrintT(<<"REPLAY", ToJson([shape |-> shape])>>)
=============================================================================
