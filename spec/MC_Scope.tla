------------------------------ MODULE MC_Scope ------------------------------
(* C12 generator (spec -> impl): every statement sequence, up to MaxLen statements and block
   depth MaxDepth, over
       let x / let y / x <- k / y <- k / read x / read y / call f / call o.m
       letxx: let x = x + k (the initializer reads the x that is visible before the new one exists); letxeq: let x = x (a copy, not an alias)
       methrx / methwx: an object created on the spot whose method reads / assigns the free name x (methods see globals only)
       begin ... end / if true then S / if false then S else S' / while <once> do S
   in prefix notation (operands of if/while are an atom or a block).  TLC builds the
   sequences on the fly: a state is a prefix, Next appends one token, a state whose bracket
   stack is empty is a complete sequence and is printed.  The driver places each sequence in
   the four contexts (top level, top-level block, function body, method body; with and without
   global x, y), numbers the written literals, and the README semantics FMLSource - run by TLC -
   prescribes every printed value and the failure point; the real pipeline must agree.      *)
EXTENDS Integers, Sequences, TLC, Json, IOUtils
VARIABLES toks, stack, size

MaxLen == IF "MAXLEN" \in DOMAIN IOEnv THEN CHOOSE k \in 1..8 : ToString(k) = IOEnv.MAXLEN ELSE 3
MaxDepth == 2
Atoms == {"letx", "lety", "letxx", "letxeq", "setx", "sety", "readx", "ready", "callf", "callm", "methrx", "methwx"}
Depth == Len(SelectSeq(stack, LAMBDA e : e = "blk"))
InSeq == IF stack = <<>> THEN TRUE ELSE stack[Len(stack)] = "blk"
Pop == SubSeq(stack, 1, Len(stack) - 1)

Init == toks = <<>> /\ stack = <<>> /\ size = 0
AddAtom == /\ size < MaxLen
           /\ \E a \in Atoms : toks' = Append(toks, a)
           /\ stack' = IF InSeq THEN stack ELSE Pop
           /\ size' = size + 1
OpenBlock == /\ size < MaxLen /\ Depth < MaxDepth
             /\ toks' = Append(toks, "begin")
             /\ stack' = IF InSeq THEN Append(stack, "blk") ELSE Append(Pop, "blk")
             /\ size' = size + 1
CloseBlock == /\ (IF stack = <<>> THEN FALSE ELSE stack[Len(stack)] = "blk" /\ toks[Len(toks)] # "begin")
              /\ toks' = Append(toks, "end") /\ stack' = Pop /\ size' = size
Prefix == /\ size < MaxLen - 1 /\ InSeq
          /\ \E p \in {"ift", "iff", "wh"} :
               /\ toks' = Append(toks, p)
               /\ stack' = stack \o (IF p = "iff" THEN <<"arg", "arg">> ELSE <<"arg">>)
               /\ size' = size + 1
Next == AddAtom \/ OpenBlock \/ CloseBlock \/ Prefix
\* enough budget left to satisfy the pending operands and close the blocks
Feasible == size + Len(SelectSeq(stack, LAMBDA e : e = "arg")) <= MaxLen
Complete == stack = <<>> /\ toks # <<>>
Report == ~Complete \/ PrintT(<<"REPLAY", ToJson([toks |-> toks])>>)
=============================================================================
