------------------------------ MODULE MC_DupLabels ------------------------------
(* Generator for C11 / C05: bytecode another producer may emit in which several Label
   instructions carry the same text through DISTINCT string constants (or the same constant).
   Such a file is not WellFormed in the sense of C02, but the loader accepts it and its meaning
   is fixed: the last definition in code order wins.  Whatever the meaning, executing the same
   bytes must always give the same output (C11).  Variants: which constant the jump names, how
   many duplicates, entry method first or last, a branch instead of a jump.               *)
EXTENDS FMLBytecode, TLC, Json, IOUtils
VARIABLES v
Ins(o, a, n) == [op |-> o, a |-> a, n |-> n]
S(b) == [k |-> "str", bytes |-> b]
Skip == <<115,107,105,112>>
\* consts: 0 "λ:" 1 "skip" 2 "skip" 3 "skip" 4 "A\n" 5 "B\n" 6 "C\n" 7 "f" 8 "g" 9 true, then methods
M(name, code) == [k |-> "method", name |-> name, arity |-> 0, locals |-> 0, code |-> code]
Prog(jumpc, dups, entryfirst, viabranch) ==
  LET f == M(7, <<Ins(OP_LABEL, 1, 0), Ins(OP_PRINT, 4, 0), Ins(OP_RETURN, 0, 0)>>)
      g == M(8, IF dups = 3 THEN <<Ins(OP_LABEL, 3, 0), Ins(OP_PRINT, 6, 0), Ins(OP_RETURN, 0, 0)>> ELSE <<Ins(OP_PRINT, 6, 0), Ins(OP_RETURN, 0, 0)>>)
      go == IF viabranch THEN <<Ins(OP_LIT, 9, 0), Ins(OP_BRANCH, jumpc, 0)>> ELSE <<Ins(OP_JUMP, jumpc, 0)>>
      e == M(0, go \o <<Ins(OP_PRINT, 6, 0), Ins(OP_DROP, 0, 0), Ins(OP_LABEL, 2, 0), Ins(OP_PRINT, 5, 0), Ins(OP_RETURN, 0, 0)>>)
      base == <<S(<<206,187,58>>), S(Skip), S(Skip), S(Skip), S(<<65,10>>), S(<<66,10>>), S(<<67,10>>), S(<<102>>), S(<<103>>), [k |-> "bool", b |-> TRUE]>> IN
  IF entryfirst THEN [consts |-> base \o <<e, f, g>>, globals |-> <<11, 12>>, entry |-> 10]
  ELSE [consts |-> base \o <<f, g, e>>, globals |-> <<10, 11>>, entry |-> 12]
Init == v \in [jumpc : {1, 2, 3}, dups : {2, 3}, entryfirst : BOOLEAN, viabranch : BOOLEAN]
Next == FALSE /\ UNCHANGED v
Report == PrintT(<<"REPLAY", ToJson([v |-> v, bytes |-> Encode(Prog(v.jumpc, v.dups, v.entryfirst, v.viabranch))])>>)
=============================================================================
