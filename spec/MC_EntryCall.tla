------------------------------ MODULE MC_EntryCall ------------------------------
(* Generator for C05: files another producer may emit in which the ENTRY method is also listed
   among the globals (under the name "main"), as any other function is, and calls itself by that
   name - a countdown 3 2 1 liftoff driven by a global.  Nothing in the format singles the entry
   method out: what is listed among the globals is callable.  Variants: where the entry stands in
   the global table, whether a second function is listed too, whether the program calls the
   entry at all.                                                                            *)
EXTENDS FMLBytecode, TLC, Json, IOUtils
VARIABLES v
Ins(o, a, n) == [op |-> o, a |-> a, n |-> n]
S(b) == [k |-> "str", bytes |-> b]
\* consts: 0 "main" 1 "n" 2 slot n 3 int 3 4 int 0 5 int 1 6 "==" 7 "-" 8 "~ " 9 "liftoff\n" 10 null 11 "init" 12 "go" 13 "done" 14 "other" 15 method other 16 method main
Other == [k |-> "method", name |-> 14, arity |-> 0, locals |-> 0, code |-> <<Ins(OP_LIT, 4, 0), Ins(OP_RETURN, 0, 0)>>]
Main(recurse) ==
  [k |-> "method", name |-> 0, arity |-> 0, locals |-> 0, code |->
     << Ins(OP_GETGLB, 1, 0), Ins(OP_LIT, 10, 0), Ins(OP_CALLM, 6, 2), Ins(OP_BRANCH, 11, 0), Ins(OP_JUMP, 12, 0),
        Ins(OP_LABEL, 11, 0), Ins(OP_LIT, 3, 0), Ins(OP_SETGLB, 1, 0), Ins(OP_DROP, 0, 0),
        Ins(OP_LABEL, 12, 0), Ins(OP_GETGLB, 1, 0), Ins(OP_LIT, 4, 0), Ins(OP_CALLM, 6, 2), Ins(OP_BRANCH, 13, 0),
        Ins(OP_GETGLB, 1, 0), Ins(OP_PRINT, 8, 1), Ins(OP_DROP, 0, 0),
        Ins(OP_GETGLB, 1, 0), Ins(OP_LIT, 5, 0), Ins(OP_CALLM, 7, 2), Ins(OP_SETGLB, 1, 0), Ins(OP_DROP, 0, 0) >>
     \o (IF recurse THEN <<Ins(OP_CALLF, 0, 0), Ins(OP_RETURN, 0, 0)>> ELSE <<Ins(OP_CALLF, 14, 0), Ins(OP_RETURN, 0, 0)>>)
     \o << Ins(OP_LABEL, 13, 0), Ins(OP_PRINT, 9, 0), Ins(OP_RETURN, 0, 0) >>]
Prog(pos, withother, recurse) ==
  [consts |-> << S(<<109,97,105,110>>), S(<<110>>), [k |-> "slot", name |-> 1], [k |-> "int", i |-> 3], [k |-> "int", i |-> 0], [k |-> "int", i |-> 1],
                 S(<<61,61>>), S(<<45>>), S(<<126,32>>), S(<<108,105,102,116,111,102,102,10>>), [k |-> "null"], S(<<105,110,105,116>>), S(<<103,111>>), S(<<100,111,110,101>>),
                 S(<<111,116,104,101,114>>), Other, Main(recurse) >>,
   globals |-> CASE pos = "first" -> <<16, 2>> \o (IF withother THEN <<15>> ELSE <<>>)
                 [] pos = "last"  -> <<2>> \o (IF withother THEN <<15>> ELSE <<>>) \o <<16>>
                 [] OTHER         -> <<2>> \o (IF withother THEN <<15>> ELSE <<>>),          \* "absent": the usual layout, the entry is not listed
   entry |-> 16]
\* without a listed "other" a program that calls other fails there; without a listed entry a program that calls main fails there: FMLVM says which
Init == v \in [pos : {"first", "last", "absent"}, withother : BOOLEAN, recurse : BOOLEAN]
Next == FALSE /\ UNCHANGED v
Report == PrintT(<<"REPLAY", ToJson([v |-> v, bytes |-> Encode(Prog(v.pos, v.withother, v.recurse))])>>)
=============================================================================
