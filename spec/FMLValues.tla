---------------------------- MODULE FMLValues ----------------------------
(* Run-time values, the heap, truthiness, canonical rendering and the print formatter
   (C15).  Strings are UTF-8 byte sequences: every character print treats specially is
   ASCII and Rust's String order is byte order, so no decoding is needed.            *)
EXTENDS Integers, Sequences, FiniteSets, FMLInt32

Null      == [k |-> "null", v |-> 0]
IntV(i)   == [k |-> "int",  v |-> i]
BoolV(b)  == [k |-> "bool", v |-> IF b THEN 1 ELSE 0]
RefV(n)   == [k |-> "ref",  v |-> n]      \* n = allocation index (0-based) = the implementation's heap index
IsValue(x) == x.k \in {"null", "int", "bool", "ref"}

\* false and null are falsy, everything else (every integer, every reference) is truthy
Truthy(v) == ~(v.k = "null" \/ (v.k = "bool" /\ v.v = 0))

\* heap objects:  [k |-> "arr", elems]   [k |-> "obj", parent, fields : Seq(<<name, value>>), methods]
Deref(heap, v) == heap[v.v + 1]
IsArr(heap, v) == v.k = "ref" /\ v.v < Len(heap) /\ heap[v.v + 1].k = "arr"
IsObj(heap, v) == v.k = "ref" /\ v.v < Len(heap) /\ heap[v.v + 1].k = "obj"

FieldIdx(fields, name) == {i \in 1..Len(fields) : fields[i][1] = name}
Pick(S) == CHOOSE x \in S : TRUE      \* only ever applied to singleton sets (checked by callers' guards)

------------------------------------------------------------------------------
\* reference graph, used to recognise cyclic values before rendering
RefsOf(vals) == {vals[i].v : i \in {i \in 1..Len(vals) : vals[i].k = "ref"}}
Succ(heap, r) == LET o == heap[r + 1] IN
                 IF o.k = "arr" THEN RefsOf(o.elems)
                 ELSE (IF o.parent.k = "ref" THEN {o.parent.v} ELSE {}) \cup
                      {o.fields[i][2].v : i \in {i \in 1..Len(o.fields) : o.fields[i][2].k = "ref"}}
RECURSIVE Closure(_,_)
Closure(heap, S) == LET S2 == S \cup UNION {Succ(heap, r) : r \in S} IN IF S2 = S THEN S ELSE Closure(heap, S2)
\* v reaches a reference that lies on a cycle: rendering v does not terminate.
\* Decided by peeling: repeatedly remove from the reachable set the cells all of whose successors are already
\* removed; the value is acyclic iff everything can be removed.
RECURSIVE Peel(_,_)
Peel(heap, S) == LET L == {r \in S : Succ(heap, r) \cap S = {}} IN
                 IF S = {} THEN FALSE ELSE IF L = {} THEN TRUE ELSE Peel(heap, S \ L)
Cyclic(heap, v) == v.k = "ref" /\ Peel(heap, Closure(heap, {v.v}))

------------------------------------------------------------------------------
\* rendering (the value is acyclic)
RECURSIVE Digits(_)
Digits(n) == IF n < 10 THEN <<48 + n>> ELSE Digits(n \div 10) \o <<48 + (n % 10)>>
RenderInt(i) == IF i = MINI THEN <<45, 50,49,52,55,52,56,51,54,52,56>>
                ELSE IF i < 0 THEN <<45>> \o Digits(-i) ELSE Digits(i)
S_null  == <<110,117,108,108>>
S_true  == <<116,114,117,101>>
S_false == <<102,97,108,115,101>>
S_object == <<111,98,106,101,99,116,40>>  \* "object("
RECURSIVE BytesLess(_,_)
BytesLess(a, b) == IF a = <<>> THEN b # <<>> ELSE IF b = <<>> THEN FALSE
                   ELSE IF a[1] # b[1] THEN a[1] < b[1] ELSE BytesLess(Tail(a), Tail(b))
\* fields in lexicographic (byte) order of their names; names within one object are unique
RECURSIVE SortFields(_)
SortFields(fs) == IF Len(fs) <= 1 THEN fs ELSE
   LET h == fs[1]
       rest == Tail(fs)
       lo == SelectSeq(rest, LAMBDA f: BytesLess(f[1], h[1]))
       hi == SelectSeq(rest, LAMBDA f: ~BytesLess(f[1], h[1]))
   IN SortFields(lo) \o <<h>> \o SortFields(hi)
RECURSIVE Render(_,_), RenderList(_,_,_), RenderFields(_,_,_)
RenderList(heap, vs, i) == IF i > Len(vs) THEN <<>> ELSE
   (IF i > 1 THEN <<44, 32>> ELSE <<>>) \o Render(heap, vs[i]) \o RenderList(heap, vs, i + 1)
RenderFields(heap, fs, i) == IF i > Len(fs) THEN <<>> ELSE
   (IF i > 1 THEN <<44, 32>> ELSE <<>>) \o fs[i][1] \o <<61>> \o Render(heap, fs[i][2]) \o RenderFields(heap, fs, i + 1)
Render(heap, v) ==
  CASE v.k = "null" -> S_null
    [] v.k = "int"  -> RenderInt(v.v)
    [] v.k = "bool" -> IF v.v = 1 THEN S_true ELSE S_false
    [] v.k = "ref"  -> LET o == heap[v.v + 1] IN
        IF o.k = "arr" THEN <<91>> \o RenderList(heap, o.elems, 1) \o <<93>>
        ELSE LET fs == SortFields(o.fields) IN
             IF o.parent.k = "null" THEN S_object \o RenderFields(heap, fs, 1) \o <<41>>
             ELSE IF fs = <<>> THEN S_object \o <<46,46,61>> \o Render(heap, o.parent) \o <<41>>
             ELSE S_object \o <<46,46,61>> \o Render(heap, o.parent) \o <<44,32>> \o RenderFields(heap, fs, 1) \o <<41>>

------------------------------------------------------------------------------
\* print: each ~ is replaced by the next argument, \n \t \r \\ \" \~ are decoded, every other
\* byte is copied; too few / too many arguments or an unknown escape is a failure, and a
\* failing print writes nothing.  Result: [ok, out, cyc]; cyc = some consumed argument is cyclic
\* (then any clean outcome is acceptable and the caller stops comparing output).
RECURSIVE Fmtf(_,_,_,_,_,_)
Fmtf(heap, f, i, args, esc, acc) ==
  IF i > Len(f) THEN [ok |-> args = <<>>, out |-> acc, cyc |-> FALSE]   \* a trailing lone backslash is dropped (outside every quantifier)
  ELSE LET c == f[i] IN
    IF esc THEN
      CASE c = 126 -> Fmtf(heap, f, i+1, args, FALSE, Append(acc, 126))
        [] c = 92  -> Fmtf(heap, f, i+1, args, FALSE, Append(acc, 92))
        [] c = 34  -> Fmtf(heap, f, i+1, args, FALSE, Append(acc, 34))
        [] c = 110 -> Fmtf(heap, f, i+1, args, FALSE, Append(acc, 10))
        [] c = 116 -> Fmtf(heap, f, i+1, args, FALSE, Append(acc, 9))
        [] c = 114 -> Fmtf(heap, f, i+1, args, FALSE, Append(acc, 13))
        [] OTHER -> [ok |-> FALSE, out |-> <<>>, cyc |-> FALSE]
    ELSE IF c = 92 THEN Fmtf(heap, f, i+1, args, TRUE, acc)
    ELSE IF c = 126 THEN
        IF args = <<>> THEN [ok |-> FALSE, out |-> <<>>, cyc |-> FALSE]
        ELSE IF Cyclic(heap, Head(args)) THEN [ok |-> FALSE, out |-> <<>>, cyc |-> TRUE]
        ELSE Fmtf(heap, f, i+1, Tail(args), FALSE, acc \o Render(heap, Head(args)))
    ELSE Fmtf(heap, f, i+1, args, FALSE, Append(acc, c))
Printf(heap, format, args) == Fmtf(heap, format, 1, args, FALSE, <<>>)
=============================================================================
