------------------------------ MODULE TraceVM ------------------------------
(* impl -> spec: lock-step validation of recorded executions of the real VM against FMLVM.
   Input (env TRACES): ndjson, one record per execution
       [bytes, events : Seq([op, sd, top, fd, hl, ol, next, loc, new]), out, ok, diverged, fin, hasref, refout, refok, chkdepth]
   The programs are read from their bytes by the independent decoder.  Every event is one
   instruction executed by the implementation (hook after eval_opcode returned Ok); the spec
   machine takes the same step and its projected state must equal the logged fields.
   One VERDICT line per trace; a divergence ends that trace only.                        *)
EXTENDS FMLVM, FMLStackDepth, TLC, Json, IOUtils
VARIABLES vm, t, l, verdict

ASSUME TLCSet(1, ndJsonDeserialize(IOEnv.TRACES))
Rec == TLCGet(1)
ASSUME TLCSet(2, [i \in 1..Len(Rec) |-> LET P == Decode(Rec[i].bytes) IN IF P.ok THEN Load(P) ELSE [loadable |-> FALSE, startable |-> FALSE]])
Img(i) == TLCGet(2)[i]
\* static depth per code address (for records that ask for it: compiler outputs), -1 = statically unreachable / not computed
StaticDepths(P) == LET ms == MethodIdxs(P) IN
  Flatten([j \in 1..NC(P) |-> IF P.consts[j].k = "method" THEN DepthMap(P, j - 1) ELSE <<>>])
ASSUME TLCSet(5, [i \in 1..Len(Rec) |-> IF Rec[i].chkdepth THEN (LET P == Decode(Rec[i].bytes) IN IF P.ok /\ WellFormed(P) THEN StaticDepths(P) ELSE <<>>) ELSE <<>>])
SDepth(i) == TLCGet(5)[i]
\* RuntimeDepth = StaticDepth: before an instruction executes, the operand-stack depth relative to the frame's entry is the statically computed one
DepthAgrees(i, s) == SDepth(i) = <<>> \/ s.frames = <<>> \/ s.pc < 0 \/ s.pc >= Len(SDepth(i)) \/ SDepth(i)[s.pc + 1] = -1
                     \/ Len(s.stack) - s.frames[Len(s.frames)].base = SDepth(i)[s.pc + 1]

NoTop == [k |-> "none", v |-> 0]
ProjObj(I, o) == IF o.k = "arr" THEN [k |-> "arr", elems |-> o.elems]
                 ELSE [k |-> "obj", parent |-> o.parent, fields |-> o.fields,
                       methods |-> [i \in 1..Len(o.methods) |-> CStr(I, I.consts[o.methods[i] + 1].name)]]
Project(I, s0, s, op) ==
  [op |-> op, sd |-> Len(s.stack), top |-> IF s.stack = <<>> THEN NoTop ELSE s.stack[Len(s.stack)],
   fd |-> Len(s.frames), hl |-> Len(s.heap), ol |-> Len(s.out), next |-> s.pc,
   loc |-> IF s.frames = <<>> THEN <<>> ELSE s.frames[Len(s.frames)].locals,
   new |-> [i \in 1..(Len(s.heap) - Len(s0.heap)) |-> ProjObj(I, s.heap[Len(s0.heap) + i])]]
Logged(e) == [op |-> e.op, sd |-> e.sd, top |-> e.top, fd |-> e.fd, hl |-> e.hl, ol |-> e.ol, next |-> e.next, loc |-> e.loc, new |-> e.new]
Fields == {"op", "sd", "top", "fd", "hl", "ol", "next", "loc", "new"}
FirstDiff(a, b) == LET d == {f \in Fields : a[f] # b[f]} IN IF d = {} THEN "none" ELSE CHOOSE f \in d : TRUE

\* final state of a successful run: globals sorted by name, whole heap, operand stack, frame depth
RECURSIVE SortNames(_)
SortNames(S) == IF S = {} THEN <<>> ELSE LET m == CHOOSE x \in S : \A y \in S \ {x} : BytesLess(x, y) IN <<m>> \o SortNames(S \ {m})
ProjFinal(I, s) == [globals |-> LET ns == SortNames(DOMAIN s.globals) IN [i \in 1..Len(ns) |-> <<ns[i], s.globals[ns[i]]>>],
                    heap |-> [i \in 1..Len(s.heap) |-> ProjObj(I, s.heap[i])], stack |-> s.stack, fd |-> Len(s.frames)]
LoggedFinal(f) == [globals |-> f.globals, heap |-> f.heap, stack |-> f.stack, fd |-> f.fd]

Init == \E i \in 1..Len(Rec) :
          /\ t = i /\ l = 1
          /\ IF ~Img(i).loadable THEN vm = [st |-> "noload"] /\ verdict = "noload"
             ELSE IF ~Img(i).startable THEN vm = [st |-> "nostart"] /\ verdict = "nostart"
             ELSE vm = VMInit(Img(i)) /\ verdict = "ok"

Next == /\ verdict = "ok" /\ vm.st = "run"
        /\ LET I == Img(t)  s2 == VMStep(I, vm) IN
           /\ vm' = s2 /\ t' = t
           /\ IF ~StepOK(I, vm, s2) THEN verdict' = "spec-invariant" /\ l' = l
              ELSE IF ~DepthAgrees(t, vm) THEN verdict' = "runtime-depth-differs-from-static" /\ l' = l
              ELSE IF s2.st = "fail" THEN l' = l /\ verdict' = IF s2.note = "cycle" THEN "cycle" ELSE "ok"
              ELSE IF l > Len(Rec[t].events) THEN l' = l /\ verdict' = IF Rec[t].diverged THEN "truncated" ELSE "impl-stopped"
              ELSE LET p == Project(I, vm, s2, I.code[vm.pc + 1].op)  e == Logged(Rec[t].events[l]) IN
                   /\ l' = l + 1
                   /\ verdict' = IF p = e THEN "ok" ELSE "diverged:" \o FirstDiff(p, e)

Stop == verdict # "ok" \/ vm.st # "run"
\* acceptance of the whole trace
EndOk == LET r == Rec[t] IN
  CASE verdict = "noload"  -> r.load = "panic"
    [] verdict = "nostart" -> r.load = "ok" /\ r.init # "ok" /\ r.out = <<>> /\ ~r.ok
    [] verdict = "cycle"   -> TRUE                      \* any clean outcome of printing a cyclic value is acceptable
    [] verdict = "truncated" -> TRUE                    \* step budget exhausted by the driver: the validated prefix is all there is
    [] verdict = "ok" -> /\ r.load = "ok" /\ r.init = "ok"
                         /\ l = Len(r.events) + 1        \* every logged instruction was consumed
                         /\ r.ok = (vm.st = "done") /\ ~r.diverged
                         /\ r.out = vm.out
                         /\ (vm.st = "done" /\ r.hasfin => LoggedFinal(r.fin) = ProjFinal(Img(t), vm))
                         /\ (r.hasref => (r.refok = r.ok /\ r.refout = r.out))   \* a relaid program behaves like the original
    [] OTHER -> FALSE
Final == ~Stop \/ PrintT(<<"VERDICT", ToJson([t |-> t, id |-> Rec[t].id, l |-> l, verdict |-> verdict, end_ok |-> EndOk,
                                               st |-> vm.st, steps |-> l - 1])>>)
=============================================================================
