CONSTANTS
  Segs <- MCSegs
  Writer = "once"
  MaxFaults = 2
INIT Init
NEXT Next
INVARIANT TypeOK
INVARIANT PrefixInv
INVARIANT Complete
CHECK_DEADLOCK FALSE
