------------------------------- MODULE FMLSink -------------------------------
(* The serializer / byte-sink protocol (C08).  The serializer wants to deliver the segments
   Segs (one per primitive write) to a sink that honours the Write contract: a write request of
   m bytes is answered by  Accept(n), 1 <= n <= m  (possibly short),  Accept(0)  (the sink takes
   nothing any more),  Interrupted  (nothing taken, ask again)  or  Error.
   Two writer protocols, structured like the code:
     "all"   write_all: re-issues the unaccepted rest until the segment is delivered; Accept(0)
             and Error end the serialization with a reported error; Interrupted is retried;
     "once"  (named deviation = serializable.rs before the fix) issues each segment once and
             ignores the returned count.
   Properties:  PrefixInv  - what the sink received is always a prefix of the requested stream;
                Complete   - a serialization that reports success delivered the whole stream. *)
EXTENDS Integers, Sequences, FiniteSets
CONSTANTS Segs,          \* sequence of non-empty byte sequences
          Writer,        \* "all" | "once"
          MaxFaults      \* bound on Interrupted answers (keeps the model finite)
VARIABLES i, off, delivered, status, faults

RECURSIVE Flat(_)
Flat(ss) == IF ss = <<>> THEN <<>> ELSE Head(ss) \o Flat(Tail(ss))
Requested == Flat(Segs)
IsPrefix(a, b) == Len(a) <= Len(b) /\ SubSeq(b, 1, Len(a)) = a
vars == <<i, off, delivered, status, faults>>

Init == i = 1 /\ off = 0 /\ delivered = <<>> /\ status = "writing" /\ faults = 0
Rest == SubSeq(Segs[i], off + 1, Len(Segs[i]))
Advance(n) == IF Writer = "once" \/ off + n = Len(Segs[i])
              THEN i' = i + 1 /\ off' = 0                     \* "once" moves on whatever the sink accepted
              ELSE i' = i /\ off' = off + n
\* one write call answered with Accept(n), n >= 1
Accept == /\ status = "writing" /\ i <= Len(Segs)
          /\ \E n \in 1..Len(Rest) :
               /\ delivered' = delivered \o SubSeq(Rest, 1, n)
               /\ Advance(n)
          /\ UNCHANGED <<status, faults>>
AcceptZero == /\ status = "writing" /\ i <= Len(Segs)
              /\ IF Writer = "all" THEN status' = "error" /\ UNCHANGED <<i, off>>     \* write_all: WriteZero is an error
                 ELSE i' = i + 1 /\ off' = 0 /\ UNCHANGED status                        \* "once" does not even notice
              /\ UNCHANGED <<delivered, faults>>
Interrupted == /\ status = "writing" /\ i <= Len(Segs) /\ faults < MaxFaults
               /\ faults' = faults + 1
               /\ IF Writer = "all" THEN UNCHANGED <<i, off, status>>                   \* retried
                  ELSE status' = "error" /\ UNCHANGED <<i, off>>                        \* `?` propagates it
               /\ UNCHANGED delivered
HardError == /\ status = "writing" /\ i <= Len(Segs)
             /\ status' = "error" /\ UNCHANGED <<i, off, delivered, faults>>
Finish == /\ status = "writing" /\ i > Len(Segs) /\ status' = "ok" /\ UNCHANGED <<i, off, delivered, faults>>
Next == Accept \/ AcceptZero \/ Interrupted \/ HardError \/ Finish
Spec == Init /\ [][Next]_vars

TypeOK == i \in 1..(Len(Segs) + 1) /\ status \in {"writing", "ok", "error"}
PrefixInv == IsPrefix(delivered, Requested)
Complete == status = "ok" => delivered = Requested
=============================================================================
