------------------------------ MODULE FMLLayout ------------------------------
(* Semantics-preserving layout transformations of a bytecode program (C05): what another
   compiler may legally choose differently - label names, constant order (hence method order
   and entry position), an entry method ending in return, local-slot numbering, the Feeny
   spellings of the built-in operator methods, unused padding constants.
   Relayout(P, L) is again an abstract program; its behaviour must equal P's.            *)
EXTENDS FMLBytecode, FMLBuiltins

ConstOperandOps == {OP_LABEL, OP_LIT, OP_PRINT, OP_OBJECT, OP_GETFLD, OP_SETFLD, OP_CALLM, OP_CALLF, OP_SETGLB, OP_GETGLB, OP_BRANCH, OP_JUMP}
MapInstr(ins, pi(_), lm(_)) ==
  IF ins.op \in ConstOperandOps THEN [ins EXCEPT !.a = pi(ins.a)]
  ELSE IF ins.op \in {OP_SETLOC, OP_GETLOC} THEN [ins EXCEPT !.a = lm(ins.a)] ELSE ins
MapConst(c, pi(_), lmOf(_,_)) ==
  CASE c.k = "slot"   -> [c EXCEPT !.name = pi(c.name)]
    [] c.k = "class"  -> [c EXCEPT !.members = [i \in 1..Len(c.members) |-> pi(c.members[i])]]
    [] c.k = "method" -> [c EXCEPT !.name = pi(c.name),
                                   !.code = [i \in 1..Len(c.code) |-> MapInstr(c.code[i], pi, LAMBDA a : lmOf(c, a))]]
    [] OTHER -> c

\* 1. constant-pool permutation: order[j] = old index placed at new position j - 1
Permute(P, order) ==
  LET pos(i) == (CHOOSE j \in 1..Len(order) : order[j] = i) - 1 IN
  [consts |-> [j \in 1..Len(order) |-> MapConst(P.consts[order[j] + 1], pos, LAMBDA c, a : a)],
   globals |-> [i \in 1..Len(P.globals) |-> pos(P.globals[i])], entry |-> pos(P.entry)]
OrderOf(P, kind) ==
  LET n == NC(P) IN
  CASE kind = "rev" -> [j \in 1..n |-> n - j]
    [] kind = "rot" -> [j \in 1..n |-> (j + (n \div 2)) % n]
    [] kind = "evenodd" -> [j \in 1..n |-> IF j <= (n + 1) \div 2 THEN 2 * (j - 1) ELSE 2 * (j - 1 - ((n + 1) \div 2)) + 1]
    [] OTHER -> [j \in 1..n |-> j - 1]

\* 2. the entry method ends in return (needed whenever it is not the last code in the file)
EntryReturns(P) == [P EXCEPT !.consts[P.entry + 1].code = Append(@, [op |-> OP_RETURN, a |-> 0, n |-> 0])]

\* 3. local-slot numbering: parameters keep their positions, the other slots are reversed
RevLocals(P) ==
  [P EXCEPT !.consts = [i \in 1..NC(P) |-> MapConst(P.consts[i], LAMBDA a : a,
                           LAMBDA c, a : IF a < c.arity \/ a >= c.arity + c.locals THEN a ELSE c.arity + (c.locals - 1 - (a - c.arity)))]]

\* 4. label names: every string constant used by a Label instruction (and by nothing but label/goto/branch) gets a new name
LabelOps == {OP_LABEL, OP_BRANCH, OP_JUMP}
UsesOf(P, a) == {<<m, pc>> \in UNION {{<<m, pc>> : pc \in 1..Len(CAt(P, m).code)} : m \in MethodIdxs(P)} :
                    CAt(P, m).code[pc].op \in ConstOperandOps /\ CAt(P, m).code[pc].a = a}
OnlyLabelUse(P, a) == /\ \A u \in UsesOf(P, a) : CAt(P, u[1]).code[u[2]].op \in LabelOps
                      /\ \A i \in 0..NC(P)-1 : CAt(P, i).k \in {"slot", "method"} => CAt(P, i).name # a
LabelConsts(P) == {a \in 0..NC(P)-1 : CAt(P, a).k = "str" /\ OnlyLabelUse(P, a) /\ \E u \in UsesOf(P, a) : CAt(P, u[1]).code[u[2]].op = OP_LABEL}
RECURSIVE DigitsOf(_)
DigitsOf(n) == IF n < 10 THEN <<48 + n>> ELSE DigitsOf(n \div 10) \o <<48 + (n % 10)>>
RenameLabels(P) == LET ls == LabelConsts(P) IN
  [P EXCEPT !.consts = [i \in 1..NC(P) |-> IF (i - 1) \in ls THEN [k |-> "str", bytes |-> <<226,132,147>> \o DigitsOf(NC(P) - i)] ELSE P.consts[i]]]

\* 5. Feeny spellings: calls and method definitions named by an operator symbol use add, sub, ..., eq, neq, and, or
Feeny(name) == CASE name = N_add -> F_add [] name = N_sub -> F_sub [] name = N_mul -> F_mul [] name = N_div -> F_div
                 [] name = N_mod -> F_mod [] name = N_le -> F_le [] name = N_ge -> F_ge [] name = N_lt -> F_lt
                 [] name = N_gt -> F_gt [] name = N_eq -> F_eq [] name = N_ne -> F_neq [] name = N_and -> F_and
                 [] name = N_or -> F_or [] OTHER -> name
OpNameConsts(P) == {a \in 0..NC(P)-1 : CAt(P, a).k = "str" /\ Feeny(CAt(P, a).bytes) # CAt(P, a).bytes}
\* a program in which some object already defines a method under a Feeny spelling would change meaning: not transformed
FeenyApplicable(P) == \A i \in MethodIdxs(P) : IsKind(P, CAt(P, i).name, {"str"}) => Canon(StrOf(P, CAt(P, i).name)) = StrOf(P, CAt(P, i).name)
FeenySpell(P) ==
  IF ~FeenyApplicable(P) THEN P ELSE
  LET ops == OpNameConsts(P)
      RECURSIVE SeqOf(_)
      SeqOf(S) == IF S = {} THEN <<>> ELSE LET x == CHOOSE y \in S : \A z \in S : y <= z IN <<x>> \o SeqOf(S \ {x})
      oseq == SeqOf(ops)
      newidx(a) == NC(P) + (CHOOSE j \in 1..Len(oseq) : oseq[j] = a) - 1
      mapcall(ins) == IF ins.op = OP_CALLM /\ ins.a \in ops THEN [ins EXCEPT !.a = newidx(ins.a)] ELSE ins
      mapc(c) == IF c.k = "method" THEN [c EXCEPT !.name = IF c.name \in ops THEN newidx(c.name) ELSE c.name,
                                                   !.code = [i \in 1..Len(c.code) |-> mapcall(c.code[i])]] ELSE c
  IN [P EXCEPT !.consts = [i \in 1..NC(P) |-> mapc(P.consts[i])] \o [j \in 1..Len(oseq) |-> [k |-> "str", bytes |-> Feeny(CAt(P, oseq[j]).bytes)]]]

\* 6. padding: unused constants of every literal kind at the end of the pool
Pad(P) == [P EXCEPT !.consts = @ \o << [k |-> "int", i |-> MINI], [k |-> "str", bytes |-> <<240,159,152,128>>], [k |-> "null"], [k |-> "bool", b |-> FALSE], [k |-> "class", members |-> <<>>] >>]

\* a layout L = [perm, ret, loc, labels, feeny, pad]
EntryLast(P) == \A i \in MethodIdxs(P) : i <= P.entry
Relayout(P, L) ==
  LET p1 == IF L.feeny THEN FeenySpell(P) ELSE P
      p2 == IF L.labels THEN RenameLabels(p1) ELSE p1
      p3 == IF L.loc THEN RevLocals(p2) ELSE p2
      p4 == IF L.pad THEN Pad(p3) ELSE p3
      p5 == Permute(p4, OrderOf(p4, L.perm))
      p6 == IF L.ret \/ ~EntryLast(p5) THEN EntryReturns(p5) ELSE p5
  IN p6
Layouts == [perm : {"id", "rev", "rot", "evenodd"}, ret : BOOLEAN, loc : BOOLEAN, labels : BOOLEAN, feeny : BOOLEAN, pad : BOOLEAN]
=============================================================================
