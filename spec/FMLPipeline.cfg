INIT Init
NEXT Next
INVARIANT FormatAgrees
INVARIANT HandOver
INVARIANT Report
CHECK_DEADLOCK FALSE
