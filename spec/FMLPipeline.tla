------------------------------ MODULE FMLPipeline ------------------------------
(* The command-line stage machine (C06): parse | compile | execute versus run.
   A configuration path is built step by step: TLC explores every way of choosing
     Parse    input file|stdin, AST format json|lisp|yaml given explicitly or inferred from the output
              path's extension, output  -o FILE | -o DIR | stdout (captured to a file by the shell)
     Compile  input file|stdin (the artifact Parse left), input format explicit or inferred from the
              input path's extension, output  -o FILE | -o DIR | stdout
     Execute  input file|stdin
   Enabling conditions say when a step is possible at all (a format must be determinable: parse
   without --format needs an output FILE with a known extension, otherwise it writes Rust debug
   text which nothing can load; compile from stdin or from a file without a known extension needs
   --input-format).  The model also predicts the artifact names the next stage has to find:
   -o DIR derives the name from the input file name (stdin: "ast") with the format's extension.
   Model invariants: the artifact handed to the next stage is the one the previous stage wrote, in
   the format the next stage will read it in.  Every complete path is printed for replay on the
   real binary, where it must behave exactly like `fml run`.                                  *)
EXTENDS Integers, Sequences, TLC, Json, IOUtils
VARIABLES stage, parse, compile, execute, ast, bc

Formats == {"json", "lisp", "yaml"}
NoArt == [path |-> "", fmt |-> ""]
Other(f) == CASE f = "json" -> "lisp" [] f = "lisp" -> "yaml" [] OTHER -> "json"
Init == stage = "start" /\ parse = <<>> /\ compile = <<>> /\ execute = <<>> /\ ast = NoArt /\ bc = NoArt

\* where Parse leaves the AST: predicted path (relative to the scratch directory) and the format actually written
ParseOut(in, out, fmt) ==
  CASE out = "file"     -> "a/tree." \o fmt                    \* -o FILE with the format's extension
    [] out = "fileneutral" -> "a/tree.out"                    \* -o FILE with an extension that names no format (needs --format)
    [] out = "filewrong" -> "a/wrong." \o Other(fmt)           \* -o FILE whose extension names ANOTHER format (needs --format; compile needs --input-format)
    [] out = "dir"      -> "d/" \o (IF in = "file" THEN "prog" ELSE "ast") \o "." \o fmt
    [] out = "stdout"   -> "a/captured.txt"
DoParse == /\ stage = "start"
           /\ \E in \in {"file", "stdin"}, out \in {"file", "fileneutral", "filewrong", "dir", "stdout"}, fmt \in Formats, explicit \in BOOLEAN :
                /\ explicit \/ out = "file"                    \* otherwise the format is not determinable
                /\ parse' = [in |-> in, out |-> out, fmt |-> fmt, explicit |-> explicit]
                /\ ast' = [path |-> ParseOut(in, out, fmt), fmt |-> fmt]
           /\ stage' = "parsed" /\ UNCHANGED <<compile, execute, bc>>
\* extension of a path as the tools see it
Ext(p) == CASE p = "a/tree.json" \/ p = "d/prog.json" \/ p = "d/ast.json" \/ p = "a/wrong.json" -> "json"
            [] p = "a/tree.lisp" \/ p = "d/prog.lisp" \/ p = "d/ast.lisp" \/ p = "a/wrong.lisp" -> "lisp"
            [] p = "a/tree.yaml" \/ p = "d/prog.yaml" \/ p = "d/ast.yaml" \/ p = "a/wrong.yaml" -> "yaml"
            [] OTHER -> "none"
Stem(p) == CASE p \in {"a/tree.json", "a/tree.lisp", "a/tree.yaml", "a/tree.out"} -> "tree"
             [] p \in {"d/prog.json", "d/prog.lisp", "d/prog.yaml"} -> "prog"
             [] p \in {"d/ast.json", "d/ast.lisp", "d/ast.yaml"} -> "ast"
             [] p \in {"a/wrong.json", "a/wrong.lisp", "a/wrong.yaml"} -> "wrong"
             [] OTHER -> "captured"
DoCompile == /\ stage = "parsed"
             /\ \E in \in {"file", "stdin"}, out \in {"file", "dir", "stdout"}, explicit \in BOOLEAN :
                  /\ explicit \/ (in = "file" /\ Ext(ast.path) = ast.fmt)       \* inference is possible only when the extension names the format the file is in;
                                                                              \* an explicit --input-format wins over whatever the extension says
                  /\ compile' = [in |-> in, out |-> out, explicit |-> explicit, path |-> ast.path,
                                 fmt |-> IF explicit THEN ast.fmt ELSE Ext(ast.path)]
                  /\ bc' = [path |-> CASE out = "file" -> "b/code.bc"
                                       [] out = "dir" -> "e/" \o (IF in = "file" THEN Stem(ast.path) ELSE "ast") \o ".bc"
                                       [] out = "stdout" -> "b/captured.bin", fmt |-> "bc"]
             /\ stage' = "compiled" /\ UNCHANGED <<parse, execute, ast>>
DoExecute == /\ stage = "compiled"
             /\ \E in \in {"file", "stdin"} : execute' = [in |-> in, path |-> bc.path]
             /\ stage' = "done" /\ UNCHANGED <<parse, compile, ast, bc>>
Next == DoParse \/ DoCompile \/ DoExecute

\* the format Compile reads in is the format Parse wrote (no stage hands a different program to the next one)
FormatAgrees == stage \in {"compiled", "done"} => compile.fmt = ast.fmt /\ compile.path = ast.path
HandOver == stage = "done" => execute.path = bc.path
Report == stage # "done" \/ PrintT(<<"REPLAY", ToJson([parse |-> parse, compile |-> compile, execute |-> execute, ast |-> ast, bc |-> bc])>>)
=============================================================================
