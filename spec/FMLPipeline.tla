------------------------------ MODULE FMLPipeline ------------------------------
(* The command-line stage machine (C06): parse | compile | execute versus run.
   A configuration path is built step by step: TLC explores every way of choosing
     Parse    input file|stdin, AST format json|lisp|yaml given explicitly or inferred from the output
              path's extension, output  -o FILE | -o DIR | stdout (captured to a file by the shell)
     Compile  input file|stdin (the artifact Parse left), input format explicit or inferred from the
              input path's extension, output  -o FILE | -o DIR | stdout
     Execute  input file|stdin
   Enabling conditions say when a step is possible at all (a format must be determinable: parse
   without --format needs an output FILE with a known extension, otherwise it writes Rust debug
   text which nothing can load; compile from stdin or from a file without a known extension needs
   --input-format).  The model also predicts the artifact names the next stage has to find:
   -o DIR derives the name from the input file name (stdin: "ast") with the format's extension.
   Model invariants: the artifact handed to the next stage is the one the previous stage wrote, in
   the format the next stage will read it in.  Every complete path is printed for replay on the
   real binary, where it must behave exactly like `fml run`.                                  *)
EXTENDS Integers, Sequences, TLC, Json, IOUtils
VARIABLES stage, parse, compile, execute, ast, bc

Formats == {"json", "lisp", "yaml"}
\* a format named on the command line may be spelled as in the README (lower case) or as in the help text and the wrapper script (upper case)
Spellings == {"lower", "upper"}
Spelled(f, sp) == IF sp = "lower" THEN f ELSE CASE f = "json" -> "JSON" [] f = "lisp" -> "LISP" [] OTHER -> "YAML"
\* names of the source file without its .fml extension: one plain, one with further dots (only the LAST extension is replaced)
Bases == {"prog", "report.monthly"}
\* an artifact: directory, file name without its last extension, last extension, and the format its content is in
Art(dir, stem, ext, fmt) == [dir |-> dir, stem |-> stem, ext |-> ext, fmt |-> fmt, path |-> dir \o "/" \o stem \o "." \o ext]
NoArt == [dir |-> "", stem |-> "", ext |-> "", fmt |-> "", path |-> ""]
Other(f) == CASE f = "json" -> "lisp" [] f = "lisp" -> "yaml" [] OTHER -> "json"
Init == stage = "start" /\ parse = <<>> /\ compile = <<>> /\ execute = <<>> /\ ast = NoArt /\ bc = NoArt

\* where Parse leaves the AST: predicted path (relative to the scratch directory) and the format actually written
ParseOut(in, base, out, fmt) ==
  CASE out = "file"     -> Art("a", "tree", fmt, fmt)                  \* -o FILE with the format's extension
    [] out = "fileneutral" -> Art("a", "tree", "out", fmt)            \* -o FILE with an extension that names no format (needs --format)
    [] out = "filewrong" -> Art("a", "wrong", Other(fmt), fmt)         \* -o FILE whose extension names ANOTHER format (needs --format; compile needs --input-format)
    [] out = "dir"      -> Art("d", IF in = "file" THEN base ELSE "ast", fmt, fmt)   \* -o DIR: the input file's name with its last extension replaced
    [] out = "stdout"   -> Art("a", "captured", "txt", fmt)
DoParse == /\ stage = "start"
           /\ \E in \in {"file", "stdin"}, base \in Bases, out \in {"file", "fileneutral", "filewrong", "dir", "stdout"}, fmt \in Formats, explicit \in BOOLEAN, spell \in Spellings :
                /\ explicit \/ out = "file"                    \* otherwise the format is not determinable
                /\ ~explicit => spell = "lower"                \* the spelling only exists when the format is named
                /\ in = "stdin" => base = "prog"               \* the name plays no role when the source comes from stdin
                /\ parse' = [in |-> in, src |-> base \o ".fml", out |-> out, fmt |-> fmt, explicit |-> explicit, named |-> Spelled(fmt, spell)]
                /\ ast' = ParseOut(in, base, out, fmt)
           /\ stage' = "parsed" /\ UNCHANGED <<compile, execute, bc>>
\* extension of an artifact as the tools see it
Ext(a) == IF a.ext \in Formats THEN a.ext ELSE "none"
DoCompile == /\ stage = "parsed"
             /\ \E in \in {"file", "stdin"}, out \in {"file", "dir", "stdout"}, explicit \in BOOLEAN, spell \in Spellings :
                  /\ ~explicit => spell = "lower"
                  /\ explicit \/ (in = "file" /\ Ext(ast) = ast.fmt)       \* inference is possible only when the extension names the format the file is in;
                                                                              \* an explicit --input-format wins over whatever the extension says
                  /\ compile' = [in |-> in, out |-> out, explicit |-> explicit, path |-> ast.path,
                                 fmt |-> IF explicit THEN ast.fmt ELSE Ext(ast), named |-> Spelled(ast.fmt, spell)]
                  /\ bc' = CASE out = "file" -> Art("b", "code", "bc", "bc")
                              [] out = "dir" -> Art("e", IF in = "file" THEN ast.stem ELSE "ast", "bc", "bc")
                              [] out = "stdout" -> Art("b", "captured", "bin", "bc")
             /\ stage' = "compiled" /\ UNCHANGED <<parse, execute, ast>>
DoExecute == /\ stage = "compiled"
             /\ \E in \in {"file", "stdin"} : execute' = [in |-> in, path |-> bc.path]
             /\ stage' = "done" /\ UNCHANGED <<parse, compile, ast, bc>>
Next == DoParse \/ DoCompile \/ DoExecute

\* the format Compile reads in is the format Parse wrote (no stage hands a different program to the next one)
FormatAgrees == stage \in {"compiled", "done"} => compile.fmt = ast.fmt /\ compile.path = ast.path
HandOver == stage = "done" => execute.path = bc.path
Report == stage # "done" \/ PrintT(<<"REPLAY", ToJson([parse |-> parse, compile |-> compile, execute |-> execute, ast |-> ast, bc |-> bc])>>)
=============================================================================
