------------------------------ MODULE MC_InstrSeqs ------------------------------
(* Generator for C05 / C10 (spec -> impl): EVERY instruction sequence up to length MaxLen over an
   alphabet that contains each opcode with valid and invalid operands (wrong constant kind,
   index out of range, unknown label / global / function / field, arity 0 or mismatching, stack
   underflow by construction), as the entry method of a fixed small program.  Most of these
   programs are ill-formed: the real VM must fail cleanly exactly where the abstract machine
   FMLVM fails, having done exactly what it did before (fail-stop), and otherwise agree on every
   instruction.  MaxLen = 2: 1 482 programs; 3: 56 354 (env SEQLEN, STRIDE samples length 3). *)
EXTENDS FMLBytecode, TLC, Json, IOUtils
VARIABLES code
Ins(o, a, n) == [op |-> o, a |-> a, n |-> n]
MaxLen == IF "SEQLEN" \in DOMAIN IOEnv THEN (IF IOEnv.SEQLEN = "3" THEN 3 ELSE 2) ELSE 2
Stride == IF "STRIDE" \in DOMAIN IOEnv THEN CHOOSE k \in 1..64 : ToString(k) = IOEnv.STRIDE ELSE 1
\* constants: 0 "λ:"  1 5  2 null  3 true  4 "x"  5 "~\n"  6 slot x  7 class{x}  8 method f/1  9 "f"  10 "L"  11 class{x, f}  12 "+"  13 entry  14 false  15 0
Alphabet == << Ins(OP_LIT, 1, 0), Ins(OP_LIT, 2, 0), Ins(OP_LIT, 3, 0), Ins(OP_LIT, 4, 0), Ins(OP_LIT, 99, 0),
               Ins(OP_PRINT, 5, 0), Ins(OP_PRINT, 5, 1), Ins(OP_PRINT, 1, 0),
               Ins(OP_ARRAY, 0, 0), Ins(OP_OBJECT, 7, 0), Ins(OP_OBJECT, 11, 0), Ins(OP_OBJECT, 1, 0),
               Ins(OP_GETFLD, 4, 0), Ins(OP_GETFLD, 9, 0), Ins(OP_SETFLD, 4, 0),
               Ins(OP_CALLM, 9, 1), Ins(OP_CALLM, 9, 0), Ins(OP_CALLM, 12, 2), Ins(OP_CALLM, 4, 2),
               Ins(OP_CALLF, 9, 1), Ins(OP_CALLF, 9, 0), Ins(OP_CALLF, 4, 0),
               Ins(OP_SETLOC, 0, 0), Ins(OP_GETLOC, 0, 0), Ins(OP_GETLOC, 5, 0),
               Ins(OP_SETGLB, 4, 0), Ins(OP_GETGLB, 4, 0), Ins(OP_GETGLB, 9, 0),
               Ins(OP_LABEL, 10, 0), Ins(OP_JUMP, 10, 0), Ins(OP_BRANCH, 10, 0), Ins(OP_JUMP, 4, 0),
               Ins(OP_RETURN, 0, 0), Ins(OP_DROP, 0, 0), Ins(OP_GETLOC, 1, 0), Ins(OP_SETGLB, 9, 0),
               Ins(OP_LIT, 14, 0), Ins(OP_LIT, 15, 0) >>            \* false and 0: with null the values a branch must tell apart from the truthy ones
N == Len(Alphabet)
Prog(c) == [consts |-> << [k |-> "str", bytes |-> <<206,187,58>>], [k |-> "int", i |-> 5], [k |-> "null"], [k |-> "bool", b |-> TRUE],
                          [k |-> "str", bytes |-> <<120>>], [k |-> "str", bytes |-> <<126, 92, 110>>], [k |-> "slot", name |-> 4], [k |-> "class", members |-> <<6>>],
                          [k |-> "method", name |-> 9, arity |-> 1, locals |-> 0, code |-> <<Ins(OP_GETLOC, 0, 0), Ins(OP_RETURN, 0, 0)>>],
                          [k |-> "str", bytes |-> <<102>>], [k |-> "str", bytes |-> <<76>>], [k |-> "class", members |-> <<6, 8>>], [k |-> "str", bytes |-> <<43>>],
                          [k |-> "method", name |-> 0, arity |-> 0, locals |-> 1, code |-> c], [k |-> "bool", b |-> FALSE], [k |-> "int", i |-> 0] >>,
            globals |-> <<6, 8>>, entry |-> 13]
Init == \E n \in 1..MaxLen : code \in [1..n -> 1..N]
Next == FALSE /\ UNCHANGED code
Key == IF Len(code) < 3 THEN 0 ELSE (code[1] * 7 + code[2] * 13 + code[3] * 29) % Stride
Report == Key # 0 \/ PrintT(<<"REPLAY", ToJson([seq |-> code, bytes |-> Encode(Prog([j \in 1..Len(code) |-> Alphabet[code[j]]]))])>>)
=============================================================================
