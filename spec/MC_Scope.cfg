INIT Init
NEXT Next
INVARIANT Report
CONSTRAINT Feasible
CHECK_DEADLOCK FALSE
