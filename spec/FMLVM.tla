------------------------------- MODULE FMLVM -------------------------------
(* The bytecode abstract machine (C05): the documented meaning of every instruction as a
   step function over one state record, over the loader image `I == Load(P)` of FMLBytecode.
   Structured like the implementation: one disjunct per opcode (the eval_xxx functions of interpreter.rs),
   instruction pointer = address in the concatenated code vector (bump = next address, so a
   method that does not end in return/goto runs on into whatever follows: what the code does;
   well-formed programs never do it), Return pops a frame and resumes at its return address
   or halts.  A failing instruction changes nothing but `st` (fail-stop, C10).

   state: [st : "run"|"done"|"fail", pc, stack, frames : Seq([ret, base, locals]), globals, heap, out, note]
   (base = operand-stack depth when the frame was entered, after its arguments were taken)  *)
EXTENDS FMLBytecode, FMLBuiltins

VMInit(I) ==
  LET e == I.consts[I.entry + 1] IN
  [st |-> IF Len(e.code) > 0 THEN "run" ELSE "done",
   pc |-> IF Len(e.code) > 0 THEN I.base[I.entry] ELSE -1,
   stack |-> <<>>,
   frames |-> << [ret |-> -1, base |-> 0, locals |-> [i \in 1..e.locals |-> Null]] >>,
   globals |-> [n \in I.gnames |-> Null], heap |-> <<>>, out |-> <<>>, note |-> "" ]

VFail(s) == [s EXCEPT !.st = "fail"]
VFailNote(s, n) == [s EXCEPT !.st = "fail", !.note = n]
SD(s) == Len(s.stack)
Top(s) == s.stack[Len(s.stack)]
Pop(s, n) == SubSeq(s.stack, 1, Len(s.stack) - n)
LastN(s, n) == SubSeq(s.stack, Len(s.stack) - n + 1, Len(s.stack))
NextAddr(I, pc) == IF pc + 1 < I.total THEN pc + 1 ELSE -1
\* advancing past the last instruction of the code vector halts the machine (ip = None)
Goto(s, a) == IF a = -1 THEN [s EXCEPT !.pc = -1, !.st = "done"] ELSE [s EXCEPT !.pc = a]
Adv(I, s) == Goto(s, NextAddr(I, s.pc))
SetStack(s, st) == [s EXCEPT !.stack = st]
CurFrame(s) == s.frames[Len(s.frames)]
CK(I, i) == IF i < Len(I.consts) THEN I.consts[i + 1].k ELSE "none"
CStr(I, i) == I.consts[i + 1].bytes
Nulls(n) == [i \in 1..n |-> Null]

\* enter method constant mi with the given leading locals; the frame remembers where to resume
Enter(I, s, mi, argvals, stk) ==
  LET mc == I.consts[mi + 1] IN
  [s EXCEPT !.stack = stk,
            !.frames = Append(s.frames, [ret |-> NextAddr(I, s.pc), base |-> Len(stk), locals |-> argvals \o Nulls(mc.locals)]),
            !.pc = I.base[mi]]

\* method lookup: receiver, then its parent, ...; primitives / arrays at the end of a chain
\* supply their built-ins; `this` is bound to the object that holds the method
RECURSIVE Dispatch(_,_,_,_,_,_)
Dispatch(I, s, recv, name, args, stk) ==
  IF recv.k \in {"int", "bool", "null"} THEN
      LET r == PrimOp(recv, name, args) IN IF r.ok THEN Adv(I, SetStack(s, Append(stk, r.v))) ELSE VFail(s)
  ELSE LET o == s.heap[recv.v + 1] IN
       IF o.k = "arr" THEN
          LET r == ArrOp(o.elems, name, args) IN
          IF r.ok THEN Adv(I, [s EXCEPT !.stack = Append(stk, r.v), !.heap[recv.v + 1].elems = r.elems]) ELSE VFail(s)
       ELSE LET ms == {i \in 1..Len(o.methods) : CStr(I, I.consts[o.methods[i] + 1].name) = name} IN
            IF ms # {} THEN LET mi == o.methods[Pick(ms)] IN
                 IF I.consts[mi + 1].arity # Len(args) + 1 THEN VFail(s) ELSE Enter(I, s, mi, <<recv>> \o args, stk)
            ELSE IF o.parent.k = "null" THEN VFail(s) ELSE Dispatch(I, s, o.parent, name, args, stk)
\* length of the parent chain walked by a dispatch (for invariants on chain length)
RECURSIVE ChainLen(_,_)
ChainLen(heap, v) == IF v.k # "ref" \/ heap[v.v + 1].k # "obj" THEN 0 ELSE 1 + ChainLen(heap, heap[v.v + 1].parent)

DoLabel(I, s, ins)  == Adv(I, s)
DoLit(I, s, ins)    == IF CK(I, ins.a) \notin {"int", "null", "bool"} THEN VFail(s) ELSE
                       LET c == I.consts[ins.a + 1] IN
                       Adv(I, SetStack(s, Append(s.stack, CASE c.k = "int" -> IntV(c.i) [] c.k = "null" -> Null [] c.k = "bool" -> BoolV(c.b))))
DoPrint(I, s, ins)  == IF CK(I, ins.a) # "str" \/ SD(s) < ins.n THEN VFail(s) ELSE
                       LET r == Printf(s.heap, CStr(I, ins.a), LastN(s, ins.n)) IN
                       IF r.ok THEN Adv(I, [s EXCEPT !.out = s.out \o r.out, !.stack = Append(Pop(s, ins.n), Null)])
                       ELSE IF r.cyc THEN VFailNote(s, "cycle") ELSE VFail(s)
DoArray(I, s, ins)  == IF SD(s) < 2 THEN VFail(s) ELSE
                       LET init == Top(s)  size == s.stack[Len(s.stack) - 1] IN
                       IF size.k # "int" \/ size.v < 0 THEN VFail(s) ELSE
                       Adv(I, [s EXCEPT !.heap = Append(s.heap, [k |-> "arr", elems |-> [i \in 1..size.v |-> init]]),
                                        !.stack = Append(Pop(s, 2), RefV(Len(s.heap)))])
DoObject(I, s, ins) == IF CK(I, ins.a) # "class" THEN VFail(s) ELSE
                       LET members == I.consts[ins.a + 1].members IN
                       IF \E j \in 1..Len(members) : CK(I, members[j]) \notin {"slot", "method"} \/ CK(I, I.consts[members[j] + 1].name) # "str"
                       THEN VFail(s) ELSE
                       LET slots == SelectSeq(members, LAMBDA i: CK(I, i) = "slot")
                           meths == SelectSeq(members, LAMBDA i: CK(I, i) = "method")
                           nm(i) == CStr(I, I.consts[i + 1].name)
                           n == Len(slots) IN
                       IF (\E i, j \in 1..Len(meths) : i # j /\ nm(meths[i]) = nm(meths[j])) \/
                          (\E i, j \in 1..n : i # j /\ nm(slots[i]) = nm(slots[j])) \/ SD(s) < n + 1
                       THEN VFail(s) ELSE
                       LET vals == LastN(s, n)  parent == s.stack[Len(s.stack) - n] IN
                       Adv(I, [s EXCEPT !.heap = Append(s.heap, [k |-> "obj", parent |-> parent,
                                                  fields |-> [i \in 1..n |-> <<nm(slots[i]), vals[i]>>], methods |-> meths]),
                                        !.stack = Append(Pop(s, n + 1), RefV(Len(s.heap)))])
DoGetField(I, s, ins) == IF CK(I, ins.a) # "str" \/ SD(s) < 1 THEN VFail(s) ELSE
                       LET r == Top(s) IN
                       IF ~IsObj(s.heap, r) THEN VFail(s) ELSE
                       LET fs == s.heap[r.v + 1].fields  hit == FieldIdx(fs, CStr(I, ins.a)) IN
                       IF hit = {} THEN VFail(s) ELSE Adv(I, SetStack(s, Append(Pop(s, 1), fs[Pick(hit)][2])))
DoSetField(I, s, ins) == IF CK(I, ins.a) # "str" \/ SD(s) < 2 THEN VFail(s) ELSE
                       LET v == Top(s)  r == s.stack[Len(s.stack) - 1] IN
                       IF ~IsObj(s.heap, r) THEN VFail(s) ELSE
                       LET fs == s.heap[r.v + 1].fields  hit == FieldIdx(fs, CStr(I, ins.a)) IN
                       IF hit = {} THEN VFail(s) ELSE
                       Adv(I, [s EXCEPT !.stack = Append(Pop(s, 2), v), !.heap[r.v + 1].fields[Pick(hit)][2] = v])
DoCallMethod(I, s, ins) == IF ins.n = 0 \/ CK(I, ins.a) # "str" \/ SD(s) < ins.n THEN VFail(s) ELSE
                       LET all == LastN(s, ins.n) IN Dispatch(I, s, all[1], CStr(I, ins.a), Tail(all), Pop(s, ins.n))
DoCallFunction(I, s, ins) == IF CK(I, ins.a) # "str" \/ CStr(I, ins.a) \notin DOMAIN I.funs THEN VFail(s) ELSE
                       LET mi == I.funs[CStr(I, ins.a)] IN
                       IF I.consts[mi + 1].arity # ins.n \/ SD(s) < ins.n THEN VFail(s)
                       ELSE Enter(I, s, mi, LastN(s, ins.n), Pop(s, ins.n))
DoSetLocal(I, s, ins) == IF SD(s) < 1 \/ s.frames = <<>> \/ ins.a >= Len(CurFrame(s).locals) THEN VFail(s)
                       ELSE Adv(I, [s EXCEPT !.frames[Len(s.frames)].locals[ins.a + 1] = Top(s)])
DoGetLocal(I, s, ins) == IF s.frames = <<>> \/ ins.a >= Len(CurFrame(s).locals) THEN VFail(s)
                       ELSE Adv(I, SetStack(s, Append(s.stack, CurFrame(s).locals[ins.a + 1])))
DoSetGlobal(I, s, ins) == IF CK(I, ins.a) # "str" \/ SD(s) < 1 \/ CStr(I, ins.a) \notin DOMAIN s.globals THEN VFail(s)
                       ELSE Adv(I, [s EXCEPT !.globals[CStr(I, ins.a)] = Top(s)])
DoGetGlobal(I, s, ins) == IF CK(I, ins.a) # "str" \/ CStr(I, ins.a) \notin DOMAIN s.globals THEN VFail(s)
                       ELSE Adv(I, SetStack(s, Append(s.stack, s.globals[CStr(I, ins.a)])))
DoBranch(I, s, ins) == IF CK(I, ins.a) # "str" \/ SD(s) < 1 THEN VFail(s) ELSE
                       LET s1 == SetStack(s, Pop(s, 1)) IN
                       IF ~Truthy(Top(s)) THEN Adv(I, s1)
                       ELSE IF CStr(I, ins.a) \notin DOMAIN I.labels THEN VFail(s) ELSE Goto(s1, I.labels[CStr(I, ins.a)])
DoJump(I, s, ins)   == IF CK(I, ins.a) # "str" \/ CStr(I, ins.a) \notin DOMAIN I.labels THEN VFail(s)
                       ELSE Goto(s, I.labels[CStr(I, ins.a)])
DoReturn(I, s, ins) == IF s.frames = <<>> THEN VFail(s) ELSE
                       Goto([s EXCEPT !.frames = SubSeq(s.frames, 1, Len(s.frames) - 1)], CurFrame(s).ret)
DoDrop(I, s, ins)   == IF SD(s) < 1 THEN VFail(s) ELSE Adv(I, SetStack(s, Pop(s, 1)))

VMStep(I, s) ==
  IF s.pc < 0 \/ s.pc >= I.total THEN VFail(s) ELSE
  LET ins == I.code[s.pc + 1]  op == ins.op IN
  CASE op = OP_LABEL  -> DoLabel(I, s, ins)       [] op = OP_LIT    -> DoLit(I, s, ins)
    [] op = OP_PRINT  -> DoPrint(I, s, ins)       [] op = OP_ARRAY  -> DoArray(I, s, ins)
    [] op = OP_OBJECT -> DoObject(I, s, ins)      [] op = OP_GETFLD -> DoGetField(I, s, ins)
    [] op = OP_SETFLD -> DoSetField(I, s, ins)    [] op = OP_CALLM  -> DoCallMethod(I, s, ins)
    [] op = OP_CALLF  -> DoCallFunction(I, s, ins) [] op = OP_SETLOC -> DoSetLocal(I, s, ins)
    [] op = OP_GETLOC -> DoGetLocal(I, s, ins)    [] op = OP_SETGLB -> DoSetGlobal(I, s, ins)
    [] op = OP_GETGLB -> DoGetGlobal(I, s, ins)   [] op = OP_BRANCH -> DoBranch(I, s, ins)
    [] op = OP_JUMP   -> DoJump(I, s, ins)        [] op = OP_RETURN -> DoReturn(I, s, ins)
    [] op = OP_DROP   -> DoDrop(I, s, ins)

------------------------------------------------------------------------------
\* properties of single steps, evaluated on every step of every validated / explored execution
\* fail-stop (C10): a failing step changes nothing observable
FailStopStep(s, t) == t.st = "fail" => (t.out = s.out /\ t.heap = s.heap /\ t.globals = s.globals)
\* the heap is append-only and shapes are immutable (C16): earlier cells keep kind, size, field names, parent, methods
ShapeOf(o) == IF o.k = "arr" THEN <<"arr", Len(o.elems)>> ELSE <<"obj", [i \in 1..Len(o.fields) |-> o.fields[i][1]], o.parent, o.methods>>
HeapAppendOnlyStep(s, t) == Len(t.heap) >= Len(s.heap) /\ \A i \in 1..Len(s.heap) : ShapeOf(t.heap[i]) = ShapeOf(s.heap[i])
\* only object / array instructions allocate, exactly one cell each
AllocStep(I, s, t) == LET op == I.code[s.pc + 1].op IN
                      Len(t.heap) - Len(s.heap) = (IF t.st # "fail" /\ op \in {OP_OBJECT, OP_ARRAY} THEN 1 ELSE 0)
\* frame discipline (C05/C12): a call pushes exactly one frame, a return pops exactly one, nothing else touches
\* the frame stack depth, and no step changes the locals of a frame below the top
FrameStep(I, s, t) == LET d == Len(t.frames) - Len(s.frames)  n == IF d < 0 THEN Len(t.frames) ELSE Len(s.frames) IN
                      /\ d \in {-1, 0, 1}
                      /\ \A i \in 1..(n - 1) : t.frames[i] = s.frames[i]
                      /\ (d = -1 => I.code[s.pc + 1].op = OP_RETURN /\ \A i \in 1..n : t.frames[i] = s.frames[i])
                      /\ (d = 1 => I.code[s.pc + 1].op \in {OP_CALLM, OP_CALLF} /\ t.frames[Len(s.frames)] = s.frames[Len(s.frames)])
\* output only grows, and only print writes
OutStep(I, s, t) == /\ Len(t.out) >= Len(s.out) /\ SubSeq(t.out, 1, Len(s.out)) = s.out
                    /\ (t.out # s.out => I.code[s.pc + 1].op = OP_PRINT)
StepOK(I, s, t) == FailStopStep(s, t) /\ HeapAppendOnlyStep(s, t) /\ AllocStep(I, s, t) /\ FrameStep(I, s, t) /\ OutStep(I, s, t)
=============================================================================
