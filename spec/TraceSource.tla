------------------------------ MODULE TraceSource ------------------------------
(* impl -> spec for whole programs (C01, C10, C12, C13, C14): each recorded execution of the
   real pipeline (source text -> parse -> compile -> serialize -> load -> interpret) is
   compared with the behaviour of the README semantics FMLSource on the same AST.
   Input (env PROGS): ndjson of [id, ast, names, mode, budget, status : "ok"|"fail"|"reject", out]
   (status/out = what the implementation did).  The spec machine runs the program to its end,
   one state per step, every step checked against the step properties; one VERDICT per program. *)
EXTENDS FMLSource, Json, IOUtils
VARIABLES s, t, n, verdict

ASSUME TLCSet(1, ndJsonDeserialize(IOEnv.PROGS))
Rec == TLCGet(1)
ASSUME TLCSet(2, [i \in 1..Len(Rec) |-> MkProgram(Rec[i])])
Prg(i) == TLCGet(2)[i]
Budget == Rec[t].budget

Init == \E i \in 1..Len(Rec) : t = i /\ n = 0 /\ s = SrcInit(Prg(i)) /\ verdict = "ok"
Next == /\ s.st = "run" /\ verdict = "ok" /\ n < Budget
        /\ LET s2 == SrcStep(Prg(t), s) IN
           /\ s' = s2 /\ t' = t /\ n' = n + 1
           /\ verdict' = IF SrcStepOK(s, s2) THEN "ok" ELSE "spec-invariant"
Stop == s.st # "run" \/ verdict # "ok" \/ n >= Budget
IsPrefixOf(a, b) == Len(a) <= Len(b) /\ SubSeq(b, 1, Len(a)) = a
\* the implementation's outcome is the one the semantics prescribes
Agree == LET r == Rec[t] IN
  CASE s.st = "done"   -> r.status = "ok" /\ r.out = s.out
    [] s.st = "reject" -> r.status = "reject" /\ r.out = <<>>
    [] s.st = "fail"   -> IF s.note = "cycle" THEN r.status # "crash" /\ IsPrefixOf(s.out, r.out)   \* any clean outcome of printing a cyclic value
                          ELSE r.status = "fail" /\ r.out = s.out
    [] OTHER -> FALSE
\* allocation history (C16): one shape per array / object created, in creation order
ShapeOfObj(o) == IF o.k = "arr" THEN [k |-> "arr", n |-> Len(o.elems), fields |-> <<>>, methods |-> <<>>]
                 ELSE [k |-> "obj", n |-> Len(o.fields), fields |-> [i \in 1..Len(o.fields) |-> o.fields[i][1]],
                       methods |-> [i \in 1..Len(o.methods) |-> o.methods[i].n]]
\* process-level termination rules (C10), for observations made at the command line (r.hasproc):
\* success <=> exit status 0 and nothing on stderr; failure / rejection <=> normal exit with non-zero status and a diagnostic
\* on stderr; death by signal (status "crash") matches no rule
ProcOK == LET r == Rec[t] IN r.hasproc => ((r.status = "ok" => r.errempty) /\ (r.status \in {"fail", "reject"} => ~r.errempty) /\ r.status # "crash")
Final == ~Stop \/ PrintT(<<"VERDICT", ToJson([id |-> Rec[t].id, st |-> s.st, steps |-> n, frag |-> s.frag, amb |-> s.amb, note |-> s.note,
                                               verdict |-> IF verdict # "ok" THEN verdict ELSE IF s.st = "run" THEN "budget" ELSE "ok",
                                               agree |-> (s.st # "run" /\ Agree /\ ProcOK), specout |-> IF s.st # "run" /\ Agree THEN <<>> ELSE s.out, allocs |-> Len(s.heap), shapes |-> IF Rec[t].wantshapes THEN [i \in 1..Len(s.heap) |-> ShapeOfObj(s.heap[i])] ELSE <<>>, outlen |-> Len(s.out)])>>)
=============================================================================
