------------------------------ MODULE FMLSource ------------------------------
(* The README's evaluation rules as a small-step (CEK-style) machine over the normalized AST
   (C01, C10, C12, C13, C14, C16): control, continuation stack, one scope stack per call frame,
   globals, heap, output, status.  No compiler, no bytecode: this is the reference the whole
   pipeline `fml run` is compared with.

   A program record  pr = [ast, nb : name -> UTF-8 bytes, funs : name -> Fun node, gdecl, mode]
   AST nodes carry a preorder number `id` (textual position).  Node kinds:
     Int v | Bool v | Null | Var n | Let n e | Assign n e | Block es | Top es | If c a b | While c b
     Fun n params body | Call n args | MCall o n args | Print f args | GetField o n | SetField o n e
     Index o i | SetIndex o i e | Array size init | Object parent members

   state: [st : "run"|"done"|"fail"|"reject", ctl, k, cs, globals, fdef, heap, out, frag, note, amb]
     cs     call frames, each [scopes : Seq([vals : name -> value, decl : name -> let id])]
     frag   TRUE while the execution stays inside the defined fragment (section 3.6 of DESIGN.md):
            it is cleared, never set, and an execution with frag = FALSE is not judged for output
     amb    set when a method was found in a parent object (the binding of `this` is then
            under-specified: mode "holder" as implemented, or "receiver" as in Feeny)        *)
EXTENDS FMLBuiltins, TLC

Pk(S) == CHOOSE x \in S : TRUE
EmptyMap == [x \in {} |-> Null]
Bind(m, n, v) == IF n \in DOMAIN m THEN [m EXCEPT ![n] = v] ELSE m @@ (n :> v)
RECURSIVE Concat(_)
Concat(ss) == IF ss = <<>> THEN <<>> ELSE Head(ss) \o Concat(Tail(ss))
Distinct(s) == \A i, j \in 1..Len(s) : i # j => s[i] # s[j]

------------------------------------------------------------------------------
\* static structure: lets declared directly in a region (a region ends at a block, a function or a method)
RECURSIVE LetsOf(_)
LetsOf(e) ==
  LET over(es) == Concat([i \in 1..Len(es) |-> LetsOf(es[i])]) IN
  CASE e.t \in {"Int", "Bool", "Null", "Var", "Block", "Fun"} -> <<>>
    [] e.t = "Let"      -> << <<e.n, e.id>> >> \o LetsOf(e.e)
    [] e.t = "Assign"   -> LetsOf(e.e)
    [] e.t = "If"       -> LetsOf(e.c) \o LetsOf(e.a) \o LetsOf(e.b)
    [] e.t = "While"    -> LetsOf(e.c) \o LetsOf(e.b)
    [] e.t = "Call"     -> over(e.args)
    [] e.t = "MCall"    -> LetsOf(e.o) \o over(e.args)
    [] e.t = "Print"    -> over(e.args)
    [] e.t = "GetField" -> LetsOf(e.o)
    [] e.t = "SetField" -> LetsOf(e.o) \o LetsOf(e.e)
    [] e.t = "Index"    -> LetsOf(e.o) \o LetsOf(e.i)
    [] e.t = "SetIndex" -> LetsOf(e.o) \o LetsOf(e.i) \o LetsOf(e.e)
    [] e.t = "Array"    -> LetsOf(e.size) \o LetsOf(e.init)
    [] e.t = "Object"   -> LetsOf(e.parent) \o Concat([i \in 1..Len(e.members) |-> IF e.members[i].t = "Let" THEN LetsOf(e.members[i].e) ELSE <<>>])
    [] e.t = "Top"      -> over(e.es)
RegionLets(es) == Concat([i \in 1..Len(es) |-> LetsOf(es[i])])
NamesOf(ls) == [i \in 1..Len(ls) |-> ls[i][1]]
DeclMap(ls) == [n \in {ls[i][1] : i \in 1..Len(ls)} |-> ls[Pk({i \in 1..Len(ls) : ls[i][1] = n})][2]]

\* static rejections (the toolchain refuses the program before it prints anything):
\* two distinct lets of one name directly in one region (function regions include parameters, method regions `this`)
RECURSIVE StaticOK(_)
StaticOK(e) ==
  LET all(es) == \A i \in 1..Len(es) : StaticOK(es[i]) IN
  CASE e.t \in {"Int", "Bool", "Null", "Var"} -> TRUE
    [] e.t \in {"Let", "Assign"} -> StaticOK(e.e)
    [] e.t = "Block"    -> Distinct(NamesOf(RegionLets(e.es))) /\ all(e.es)
    [] e.t = "Top"      -> /\ Distinct(NamesOf(RegionLets(e.es))) /\ all(e.es)
                           /\ Distinct([i \in 1..Len(SelectSeq(e.es, LAMBDA x : x.t = "Fun")) |-> SelectSeq(e.es, LAMBDA x : x.t = "Fun")[i].n])
    [] e.t = "Fun"      -> Distinct(e.params \o NamesOf(LetsOf(e.body))) /\ StaticOK(e.body)
    [] e.t = "If"       -> StaticOK(e.c) /\ StaticOK(e.a) /\ StaticOK(e.b)
    [] e.t = "While"    -> StaticOK(e.c) /\ StaticOK(e.b)
    [] e.t = "Call"     -> all(e.args)
    [] e.t = "MCall"    -> StaticOK(e.o) /\ all(e.args)
    [] e.t = "Print"    -> all(e.args)
    [] e.t = "GetField" -> StaticOK(e.o)
    [] e.t = "SetField" -> StaticOK(e.o) /\ StaticOK(e.e)
    [] e.t = "Index"    -> StaticOK(e.o) /\ StaticOK(e.i)
    [] e.t = "SetIndex" -> StaticOK(e.o) /\ StaticOK(e.i) /\ StaticOK(e.e)
    [] e.t = "Array"    -> StaticOK(e.size) /\ StaticOK(e.init)
    [] e.t = "Object"   -> StaticOK(e.parent) /\ \A i \in 1..Len(e.members) :
                             LET mb == e.members[i] IN
                             IF mb.t = "Let" THEN StaticOK(mb.e)
                             ELSE Distinct(<<"this">> \o mb.params \o NamesOf(LetsOf(mb.body))) /\ StaticOK(mb.body)

\* program record from a deserialized input record [ast, names : Seq([s, b]), mode]
MkProgram(r) ==
  LET es == r.ast.es
      fidx == {i \in 1..Len(es) : es[i].t = "Fun"}
      gl == RegionLets(es) IN
  [ ast |-> r.ast, mode |-> r.mode,
    nb |-> [s \in {r.names[i].s : i \in 1..Len(r.names)} |-> r.names[Pk({i \in 1..Len(r.names) : r.names[i].s = s})].b],
    funs |-> [n \in {es[i].n : i \in fidx} |-> es[Pk({i \in fidx : es[i].n = n})]],
    gdecl |-> {gl[i][1] : i \in 1..Len(gl)},
    static |-> StaticOK(r.ast) ]

------------------------------------------------------------------------------
SrcInit(pr) == [st |-> IF pr.static THEN "run" ELSE "reject",
                ctl |-> [m |-> "eval", e |-> pr.ast], k |-> <<>>,
                cs |-> << [scopes |-> <<>>] >>, globals |-> EmptyMap, fdef |-> {},
                heap |-> <<>>, out |-> <<>>, frag |-> TRUE, note |-> "", amb |-> FALSE]

SFail(s) == [s EXCEPT !.st = "fail"]
Ret(s, v) == [s EXCEPT !.ctl = [m |-> "ret", v |-> v]]
Eval(s, e) == [s EXCEPT !.ctl = [m |-> "eval", e |-> e]]
PushK(s, f) == [s EXCEPT !.k = Append(s.k, f)]
PopK(s) == [s EXCEPT !.k = SubSeq(s.k, 1, Len(s.k) - 1)]
TopK(s) == s.k[Len(s.k)]
CF(s) == s.cs[Len(s.cs)]
NoFrag(s) == [s EXCEPT !.frag = FALSE]

\* ---- scoping (C12) -----------------------------------------------------------
\* resolution of name n used at textual position uid, innermost scope first.
\* result: [kind : "scope"|"global"|"none", i, frag]   (frag = FALSE: the README gives no meaning, or a different one
\* than a static resolution, to this use: the execution leaves the defined fragment; the machine then goes on the
\* way the static resolution does)
RECURSIVE Resolve(_,_,_,_)
Resolve(sc, i, n, uid) ==
  IF i = 0 THEN [kind |-> "outer", i |-> 0, frag |-> TRUE]
  ELSE IF n \in DOMAIN sc[i].vals THEN
          IF n \notin DOMAIN sc[i].decl \/ sc[i].decl[n] < uid THEN [kind |-> "scope", i |-> i, frag |-> TRUE]
          ELSE LET r == Resolve(sc, i - 1, n, uid) IN [r EXCEPT !.frag = FALSE]    \* defined by a textually later let (earlier loop iteration)
  ELSE IF n \in DOMAIN sc[i].decl /\ sc[i].decl[n] < uid THEN [kind |-> "undef", i |-> i, frag |-> FALSE]  \* declared above, not executed
  ELSE Resolve(sc, i - 1, n, uid)

ReadVar(pr, s, n, uid) ==
  LET sc == CF(s).scopes  r == Resolve(sc, Len(sc), n, uid)  s1 == IF r.frag THEN s ELSE NoFrag(s) IN
  CASE r.kind = "scope" -> Ret(s1, sc[r.i].vals[n])
    [] r.kind = "undef" -> Ret(s1, Null)
    [] r.kind = "outer" -> IF n \in DOMAIN s.globals THEN Ret(s1, s.globals[n])
                           ELSE IF n \in pr.gdecl THEN Ret(NoFrag(s1), Null)          \* a global read before its let ran
                           ELSE SFail(s)
WriteVar(pr, s, n, uid, v) ==
  LET sc == CF(s).scopes  r == Resolve(sc, Len(sc), n, uid)  s1 == IF r.frag THEN s ELSE NoFrag(s) IN
  CASE r.kind \in {"scope", "undef"} -> Ret([s1 EXCEPT !.cs[Len(s.cs)].scopes[r.i].vals = Bind(sc[r.i].vals, n, v)], v)
    [] r.kind = "outer" -> IF n \in DOMAIN s.globals THEN Ret([s1 EXCEPT !.globals[n] = v], v)
                           ELSE IF n \in pr.gdecl THEN Ret([NoFrag(s1) EXCEPT !.globals = Bind(s.globals, n, v)], v)
                           ELSE SFail(s)
\* let: define in the innermost open scope of the current call frame; outside every block at top level: a global
Define(s, n, v) == LET d == Len(CF(s).scopes) IN
                   IF d = 0 THEN [s EXCEPT !.globals = Bind(s.globals, n, v)]
                   ELSE [s EXCEPT !.cs[Len(s.cs)].scopes[d].vals = Bind(CF(s).scopes[d].vals, n, v)]
PushScope(s, es) == [s EXCEPT !.cs[Len(s.cs)].scopes = Append(CF(s).scopes, [vals |-> EmptyMap, decl |-> DeclMap(RegionLets(es))])]
PopScope(s) == [s EXCEPT !.cs[Len(s.cs)].scopes = SubSeq(CF(s).scopes, 1, Len(CF(s).scopes) - 1)]

\* ---- calls ---------------------------------------------------------------------
\* a callee frame starts with exactly its parameters (+ this); it sees nothing of the caller
EnterFun(s, f, names, vals) ==
  LET sc == [vals |-> [n \in {names[i] : i \in 1..Len(names)} |-> vals[Pk({i \in 1..Len(names) : names[i] = n})]],
             decl |-> DeclMap(LetsOf(f.body))] IN
  Eval(PushK([s EXCEPT !.cs = Append(s.cs, [scopes |-> <<sc>>])], [t |-> "retk"]), f.body)

Alloc(s, o) == [s EXCEPT !.heap = Append(s.heap, o)]

\* method lookup along the parent chain (C14); orig = the receiver the call started with
RECURSIVE SDispatch(_,_,_,_,_,_)
SDispatch(pr, s, recv, orig, n, args) ==
  IF recv.k \in {"int", "bool", "null"} THEN
       LET r == PrimOp(recv, pr.nb[n], args) IN IF r.ok THEN Ret(s, r.v) ELSE SFail(s)
  ELSE LET o == s.heap[recv.v + 1] IN
       IF o.k = "arr" THEN
            LET r == ArrOp(o.elems, pr.nb[n], args) IN
            IF r.ok THEN Ret([s EXCEPT !.heap[recv.v + 1].elems = r.elems], r.v) ELSE SFail(s)
       ELSE LET ms == {i \in 1..Len(o.methods) : o.methods[i].n = n} IN
            IF ms # {} THEN LET f == o.methods[Pk(ms)] IN
                 IF Len(f.params) # Len(args) THEN SFail(s)
                 ELSE EnterFun([s EXCEPT !.amb = s.amb \/ recv # orig], f, <<"this">> \o f.params,
                               <<IF pr.mode = "receiver" THEN orig ELSE recv>> \o args)
            ELSE IF o.parent.k = "null" THEN SFail(s) ELSE SDispatch(pr, s, o.parent, orig, n, args)

\* ---- applying an operator once its operands are evaluated (left to right, C13) ----
Apply(pr, s, f, vals) ==
  CASE f.op = "call" -> IF f.n \notin DOMAIN pr.funs THEN SFail(s) ELSE
                        LET fn == pr.funs[f.n]
                            s1 == IF f.n \in s.fdef THEN s ELSE NoFrag(s) IN      \* called before its definition ran: hoisting is outside the fragment
                        IF Len(fn.params) # Len(vals) THEN SFail(s) ELSE EnterFun(s1, fn, fn.params, vals)
    [] f.op = "mcall" -> SDispatch(pr, s, vals[1], vals[1], f.n, Tail(vals))
    [] f.op = "print" -> LET r == Printf(s.heap, f.f, vals) IN
                         IF r.ok THEN Ret([s EXCEPT !.out = s.out \o r.out], Null)
                         ELSE IF r.cyc THEN [s EXCEPT !.st = "fail", !.note = "cycle"] ELSE SFail(s)
    [] f.op = "getf" -> LET r == vals[1] IN
                        IF ~IsObj(s.heap, r) THEN SFail(s) ELSE
                        LET fs == s.heap[r.v + 1].fields  hit == FieldIdx(fs, pr.nb[f.n]) IN
                        IF hit = {} THEN SFail(s) ELSE Ret(s, fs[Pk(hit)][2])
    [] f.op = "setf" -> LET r == vals[1] IN
                        IF ~IsObj(s.heap, r) THEN SFail(s) ELSE
                        LET fs == s.heap[r.v + 1].fields  hit == FieldIdx(fs, pr.nb[f.n]) IN
                        IF hit = {} THEN SFail(s) ELSE Ret([s EXCEPT !.heap[r.v + 1].fields[Pk(hit)][2] = vals[2]], vals[2])
    [] f.op = "arr" -> IF vals[1].k # "int" \/ vals[1].v < 0 THEN SFail(s) ELSE
                       Ret(Alloc(s, [k |-> "arr", elems |-> [i \in 1..vals[1].v |-> vals[2]]]), RefV(Len(s.heap)))
    [] f.op = "obj" -> LET fl == SelectSeq(f.members, LAMBDA mb : mb.t = "Let")
                           ms == SelectSeq(f.members, LAMBDA mb : mb.t = "Fun") IN
                       IF ~Distinct([i \in 1..Len(fl) |-> fl[i].n]) \/ ~Distinct([i \in 1..Len(ms) |-> ms[i].n]) THEN SFail(s) ELSE
                       Ret(Alloc(s, [k |-> "obj", parent |-> vals[1],
                                     fields |-> [i \in 1..Len(fl) |-> <<pr.nb[fl[i].n], vals[i + 1]>>], methods |-> ms]), RefV(Len(s.heap)))
    [] f.op = "let" -> Ret(Define(s, f.n, vals[1]), vals[1])
    [] f.op = "assign" -> WriteVar(pr, s, f.n, f.id, vals[1])

Ops(s, f, first, rest) == Eval(PushK(s, f @@ [t |-> "ops", done |-> <<>>, rest |-> rest]), first)
\* constant array initializers: a literal, a variable, or a field read from such an expression; evaluated once
\* (their value cannot change between elements); everything else is re-executed per element
RECURSIVE Trivial(_)
Trivial(e) == e.t \in {"Int", "Bool", "Null", "Var"} \/ (e.t = "GetField" /\ Trivial(e.o))

StepEval(pr, s, e) ==
  CASE e.t = "Int"  -> Ret(s, IntV(e.v))
    [] e.t = "Bool" -> Ret(s, [k |-> "bool", v |-> e.v])
    [] e.t = "Null" -> Ret(s, Null)
    [] e.t = "Fun"  -> Ret([s EXCEPT !.fdef = s.fdef \cup {e.n}], Null)
    [] e.t = "Var"  -> ReadVar(pr, s, e.n, e.id)
    [] e.t = "Let"  -> Ops(s, [op |-> "let", n |-> e.n], e.e, <<>>)
    [] e.t = "Assign" -> Ops(s, [op |-> "assign", n |-> e.n, id |-> e.id], e.e, <<>>)
    [] e.t = "Block" -> Eval(PushK(PushScope(s, e.es), [t |-> "seq", rest |-> Tail(e.es), pop |-> TRUE]), Head(e.es))
    [] e.t = "Top"  -> Eval(PushK(s, [t |-> "seq", rest |-> Tail(e.es), pop |-> FALSE]), Head(e.es))
    [] e.t = "If"   -> Eval(PushK(s, [t |-> "if", a |-> e.a, b |-> e.b]), e.c)
    [] e.t = "While" -> Eval(PushK(s, [t |-> "wcond", c |-> e.c, b |-> e.b]), e.c)
    [] e.t = "Call" -> IF e.args = <<>> THEN Apply(pr, s, [op |-> "call", n |-> e.n], <<>>)
                       ELSE Ops(s, [op |-> "call", n |-> e.n], Head(e.args), Tail(e.args))
    [] e.t = "MCall" -> Ops(s, [op |-> "mcall", n |-> e.n], e.o, e.args)
    [] e.t = "Index" -> Ops(s, [op |-> "mcall", n |-> "get"], e.o, <<e.i>>)
    [] e.t = "SetIndex" -> Ops(s, [op |-> "mcall", n |-> "set"], e.o, <<e.i, e.e>>)
    [] e.t = "Print" -> IF e.args = <<>> THEN Apply(pr, s, [op |-> "print", f |-> e.f], <<>>)
                        ELSE Ops(s, [op |-> "print", f |-> e.f], Head(e.args), Tail(e.args))
    [] e.t = "GetField" -> Ops(s, [op |-> "getf", n |-> e.n], e.o, <<>>)
    [] e.t = "SetField" -> Ops(s, [op |-> "setf", n |-> e.n], e.o, <<e.e>>)
    [] e.t = "Array" -> IF Trivial(e.init) THEN Ops(s, [op |-> "arr"], e.size, <<e.init>>)
                        \* a let standing directly in a re-executed initializer (not inside a block of its own): the README does not say whether its
                        \* variable belongs to the enclosing scope or to each element's evaluation (the compiler wraps the element assignment in a
                        \* block, so it is the latter) - the execution leaves the defined fragment
                        ELSE Eval(PushK(IF LetsOf(e.init) = <<>> THEN s ELSE NoFrag(s), [t |-> "arrsize", init |-> e.init]), e.size)
    [] e.t = "Object" -> LET fl == SelectSeq(e.members, LAMBDA mb : mb.t = "Let") IN
                         Ops(s, [op |-> "obj", members |-> e.members], e.parent, [i \in 1..Len(fl) |-> fl[i].e])

\* a condition that is neither boolean nor null leaves the fragment (the bytecode VM calls it truthy)
Cond(s, v) == IF v.k \in {"bool", "null"} THEN s ELSE NoFrag(s)

StepRet(pr, s0, v) ==
  IF s0.k = <<>> THEN [s0 EXCEPT !.st = "done"] ELSE
  LET f == TopK(s0)
      s == PopK(s0) IN
  CASE f.t = "seq" -> IF f.rest = <<>> THEN Ret(IF f.pop THEN PopScope(s) ELSE s, v)
                      ELSE Eval(PushK(s, [f EXCEPT !.rest = Tail(f.rest)]), Head(f.rest))
    [] f.t = "if" -> Eval(Cond(s, v), IF Truthy(v) THEN f.a ELSE f.b)
    [] f.t = "wcond" -> IF Truthy(v) THEN Eval(PushK(Cond(s, v), [f EXCEPT !.t = "wbody"]), f.b) ELSE Ret(Cond(s, v), Null)
    [] f.t = "wbody" -> Eval(PushK(s, [f EXCEPT !.t = "wcond"]), f.c)
    [] f.t = "ops" -> LET done == Append(f.done, v) IN
                      IF f.rest = <<>> THEN Apply(pr, s, f, done)
                      ELSE Eval(PushK(s, [f EXCEPT !.done = done, !.rest = Tail(f.rest)]), Head(f.rest))
    [] f.t = "retk" -> Ret([s EXCEPT !.cs = SubSeq(s.cs, 1, Len(s.cs) - 1)], v)
    \* array(size, compound): size once and first, then the initializer once per element in index order
    [] f.t = "arrsize" -> IF v.k # "int" \/ v.v < 0 THEN SFail(s) ELSE
                          LET s1 == Alloc(s, [k |-> "arr", elems |-> [i \in 1..v.v |-> Null]])
                              r == RefV(Len(s.heap)) IN
                          IF v.v = 0 THEN Ret(s1, r) ELSE Eval(PushK(s1, [t |-> "arrelem", r |-> r, i |-> 0, n |-> v.v, init |-> f.init]), f.init)
    [] f.t = "arrelem" -> LET s1 == [s EXCEPT !.heap[f.r.v + 1].elems[f.i + 1] = v] IN
                          IF f.i + 1 < f.n THEN Eval(PushK(s1, [f EXCEPT !.i = f.i + 1]), f.init) ELSE Ret(s1, f.r)

SrcStep(pr, s) == IF s.ctl.m = "eval" THEN StepEval(pr, s, s.ctl.e) ELSE StepRet(pr, s, s.ctl.v)

------------------------------------------------------------------------------
\* properties of single steps
\* fail-stop (C10): a failing step changes nothing but the status
SrcFailStop(s, t) == t.st = "fail" => (t.out = s.out /\ t.heap = s.heap /\ t.globals = s.globals /\ t.cs = s.cs)
\* a callee frame starts with exactly its parameters (+ this) and the caller's frame is untouched by call and return (C12)
CallIsolated(s, t) == /\ Len(t.cs) - Len(s.cs) \in {-1, 0, 1}
                      /\ Len(t.cs) = Len(s.cs) + 1 => (Len(t.cs[Len(t.cs)].scopes) = 1 /\ \A i \in 1..Len(s.cs) : t.cs[i] = s.cs[i])
                      /\ Len(t.cs) = Len(s.cs) - 1 => \A i \in 1..Len(t.cs) : t.cs[i] = s.cs[i]
\* leaving a block drops exactly its own scope; every outer binding keeps its value
LeaveRestores(s, t) == LET a == CF(s).scopes  b == CF(t).scopes IN
                       (Len(t.cs) = Len(s.cs) /\ Len(b) < Len(a)) => (Len(b) = Len(a) - 1 /\ b = SubSeq(a, 1, Len(b)) /\ t.globals = s.globals)
\* the heap is append-only; only `array` and `object` allocate
SrcHeapStep(s, t) == Len(t.heap) \in {Len(s.heap), Len(s.heap) + 1} /\ \A i \in 1..Len(s.heap) : t.heap[i].k = s.heap[i].k
SrcOutStep(s, t) == Len(t.out) >= Len(s.out) /\ SubSeq(t.out, 1, Len(s.out)) = s.out
SrcStepOK(s, t) == SrcFailStop(s, t) /\ CallIsolated(s, t) /\ LeaveRestores(s, t) /\ SrcHeapStep(s, t) /\ SrcOutStep(s, t)
=============================================================================
