------------------------------ MODULE FMLHeapLog ------------------------------
(* The heap log (C16) as a specification of a log file given the allocation history of the
   reference execution.  log = header line, then records [ts_numeric, ev, heap]:
     Start           appends [ev |-> "S", heap |-> 0]
     Alloc(shape)    appends [ev |-> "A", heap |-> total + SizeOf(shape)]
   SizeOf is an uninterpreted positive function of the shape, learned at first use and required
   to be the same for every later allocation of that shape in the whole batch.
   Input (env LOGS): ndjson of [id, header, recs : Seq([ts_numeric, ev, heap]), shapes : Seq(shape)]
   where shapes is the allocation history FMLSource prescribes for the program (one entry per
   array/object created, in creation order).  One behaviour walks the batch, one step per log. *)
EXTENDS Integers, Sequences, FiniteSets, TLC, Json, IOUtils
VARIABLES t, sizeof, verdict

ASSUME TLCSet(1, ndJsonDeserialize(IOEnv.LOGS))
Rec == TLCGet(1)
Header == "timestamp,event,heap"

\* walk the A records of one log against the prescribed shapes; returns [why, sizeof]
\* (in runs of 128 records: one recursion as deep as a log is long costs TLC quadratic time)
RECURSIVE WalkRun(_,_,_,_,_,_)
WalkRun(recs, shapes, j, last, total, sz) ==
  IF j > last THEN [why |-> "more", sizeof |-> sz, total |-> total]
  ELSE IF j + 1 > Len(recs) THEN [why |-> "missing-record", sizeof |-> sz, total |-> total]
  ELSE LET r == recs[j + 1]  sh == shapes[j]  inc == r.heap - total IN
       IF r.ev # "A" THEN [why |-> "not-an-A-record", sizeof |-> sz, total |-> total]
       ELSE IF ~r.ts_numeric THEN [why |-> "timestamp-not-numeric", sizeof |-> sz, total |-> total]
       ELSE IF inc <= 0 THEN [why |-> "not-strictly-increasing", sizeof |-> sz, total |-> total]
       ELSE IF sh \in DOMAIN sz /\ sz[sh] # inc THEN [why |-> "size-depends-on-more-than-shape", sizeof |-> sz, total |-> total]
       ELSE WalkRun(recs, shapes, j + 1, last, r.heap, IF sh \in DOMAIN sz THEN sz ELSE (sh :> inc) @@ sz)
RECURSIVE Walk(_,_,_,_,_)
Walk(recs, shapes, j, total, sz) ==
  IF j > Len(shapes) THEN [why |-> IF Len(recs) = Len(shapes) + 1 THEN "ok" ELSE "extra-records", sizeof |-> sz]
  ELSE LET last == IF j + 127 < Len(shapes) THEN j + 127 ELSE Len(shapes)
           w == WalkRun(recs, shapes, j, last, total, sz) IN
       IF w.why # "more" THEN [why |-> w.why, sizeof |-> w.sizeof] ELSE Walk(recs, shapes, last + 1, w.total, w.sizeof)
Judge(r, sz) ==
  IF r.header # Header THEN [why |-> "header", sizeof |-> sz]
  ELSE IF Len(r.recs) = 0 \/ r.recs[1].ev # "S" \/ r.recs[1].heap # 0 \/ ~r.recs[1].ts_numeric THEN [why |-> "start-record", sizeof |-> sz]
  ELSE Walk(r.recs, r.shapes, 1, 0, sz)

Init == t = 1 /\ sizeof = [x \in {} |-> 0] /\ verdict = "start"
Next == /\ t <= Len(Rec)
        /\ LET j == Judge(Rec[t], sizeof) IN verdict' = j.why /\ sizeof' = j.sizeof
        /\ t' = t + 1
Report == t = 1 \/ PrintT(<<"VERDICT", ToJson([id |-> Rec[t - 1].id, verdict |-> verdict, shapes_learned |-> Cardinality(DOMAIN sizeof)])>>)
=============================================================================
