------------------------------ MODULE FMLParser ------------------------------
(* The whole concrete grammar of FML (README + fml.lalrpop read as documentation) as a
   recursive-descent recogniser / tree builder over token sequences (C07, C10): for ANY token
   sequence it says whether it is a program and, if so, which tree it denotes.
   Independent of LALRPOP: operators by precedence climbing (FMLSyntax.Level, left
   associative), `else` taken by the nearest `if`, postfix chains nested left to right,
   assignment targets decided after the left-hand side has been read.

   token = [k, s, v, b]:  k = "id" (s = name, `this` included) | "num" (v = value, s = "big" if it does
   not fit 32 bits) | "str" (b = raw bytes between the quotes) | the keyword / punctuation itself.
   A parse result is [ok, t (tree), p (next position)].                                    *)
EXTENDS FMLSyntax

Tk(ts, p) == IF p <= Len(ts) THEN ts[p] ELSE [k |-> "eof", s |-> "", v |-> 0, b |-> <<>>]
K(ts, p) == Tk(ts, p).k
\* kind: how the tree was written, for assignment targets: "id" a bare identifier, "field" / "index" a chain whose last
\* step is .f / [i], "other" anything else (a parenthesised or computed value cannot be assigned to)
No(p) == [ok |-> FALSE, t |-> NullL, p |-> p, kind |-> "other"]
Yes(t, p) == [ok |-> TRUE, t |-> t, p |-> p, kind |-> "other"]
YesK(t, p, kind) == [ok |-> TRUE, t |-> t, p |-> p, kind |-> kind]
OperatorToks == Operators
IsIdent(ts, p) == K(ts, p) = "id"

BoolL(b) == [t |-> "Bool", v |-> IF b THEN 1 ELSE 0]
LetN(n, e) == [t |-> "Let", n |-> n, e |-> e]
AssignN(n, e) == [t |-> "Assign", n |-> n, e |-> e]
BlockN(es) == [t |-> "Block", es |-> es]
WhileN(c, b) == [t |-> "While", c |-> c, b |-> b]
PrintN(f, args) == [t |-> "Print", f |-> f, args |-> args]
ArrayN(s, i) == [t |-> "Array", size |-> s, init |-> i]
ObjectN(p, ms) == [t |-> "Object", parent |-> p, members |-> ms]
FunN(n, ps, b) == [t |-> "Fun", n |-> n, params |-> ps, body |-> b]
SetF(o, n, e) == [t |-> "SetField", o |-> o, n |-> n, e |-> e]
SetI(o, i, e) == [t |-> "SetIndex", o |-> o, i |-> i, e |-> e]

RECURSIVE PExpr(_,_), POperation(_,_,_), POperand(_,_), PPostfix(_,_,_,_), PPrimary(_,_), PArgs(_,_,_), PSeq(_,_,_,_), PParams(_,_,_), PMembers(_,_,_), PFunction(_,_,_)

\* Arguments := (Expr ",")* Expr?     up to the closing token `close` (not consumed)
PArgs(ts, p, acc) ==
  IF K(ts, p) = ")" THEN [ok |-> TRUE, t |-> acc, p |-> p]
  ELSE LET e == PExpr(ts, p) IN
       IF ~e.ok THEN [ok |-> FALSE, t |-> acc, p |-> e.p]
       ELSE IF K(ts, e.p) = "," THEN PArgs(ts, e.p + 1, Append(acc, e.t))
       ELSE IF K(ts, e.p) = ")" THEN [ok |-> TRUE, t |-> Append(acc, e.t), p |-> e.p]
       ELSE [ok |-> FALSE, t |-> acc, p |-> e.p]
\* Parameters := "(" (Ident ",")* Ident? ")"
PParams(ts, p, acc) ==
  IF K(ts, p) = ")" THEN [ok |-> TRUE, t |-> acc, p |-> p + 1]
  ELSE IF ~IsIdent(ts, p) THEN [ok |-> FALSE, t |-> acc, p |-> p]
  ELSE IF K(ts, p + 1) = "," THEN PParams(ts, p + 2, Append(acc, Tk(ts, p).s))
  ELSE IF K(ts, p + 1) = ")" THEN [ok |-> TRUE, t |-> Append(acc, Tk(ts, p).s), p |-> p + 2]
  ELSE [ok |-> FALSE, t |-> acc, p |-> p + 1]
\* a sequence  X (";" X)* ";"?  ended by `stop` (not consumed); top = function definitions allowed
PSeq(ts, p, top, acc) ==
  LET x == IF top /\ K(ts, p) = "function" THEN PFunction(ts, p, FALSE) ELSE PExpr(ts, p) IN
  IF ~x.ok THEN [ok |-> FALSE, t |-> acc, p |-> x.p]
  ELSE IF K(ts, x.p) = ";" THEN
         (IF K(ts, x.p + 1) \in {"end", "eof"} THEN [ok |-> TRUE, t |-> Append(acc, x.t), p |-> x.p + 1]     \* trailing semicolon
          ELSE PSeq(ts, x.p + 1, top, Append(acc, x.t)))
  ELSE [ok |-> TRUE, t |-> Append(acc, x.t), p |-> x.p]
\* function definition; member = TRUE admits an operator as the name (object members only)
PFunction(ts, p, member) ==
  LET nm == Tk(ts, p + 1) IN
  IF ~(nm.k \in {"id", "print"} \/ (member /\ nm.k \in OperatorToks)) \/ K(ts, p + 2) # "(" THEN No(p + 1) ELSE
  LET ps == PParams(ts, p + 3, <<>>) IN
  IF ~ps.ok \/ K(ts, ps.p) # "->" THEN No(ps.p) ELSE
  LET b == PExpr(ts, ps.p + 1) IN
  IF ~b.ok THEN No(b.p) ELSE Yes(FunN(IF nm.k = "id" THEN nm.s ELSE nm.k, ps.t, b.t), b.p)
\* Members := "begin" (Member ";")* Member? "end"
PMembers(ts, p, acc) ==
  IF K(ts, p) = "end" THEN [ok |-> TRUE, t |-> acc, p |-> p + 1]
  ELSE LET m == IF K(ts, p) = "function" THEN PFunction(ts, p, TRUE)
                ELSE IF K(ts, p) = "let" THEN PExpr(ts, p) ELSE No(p) IN
       IF ~m.ok THEN [ok |-> FALSE, t |-> acc, p |-> m.p]
       ELSE IF K(ts, m.p) = ";" THEN PMembers(ts, m.p + 1, Append(acc, m.t))
       ELSE IF K(ts, m.p) = "end" THEN [ok |-> TRUE, t |-> Append(acc, m.t), p |-> m.p + 1]
       ELSE [ok |-> FALSE, t |-> acc, p |-> m.p]

PPrimary(ts, p) ==
  LET k == K(ts, p) IN
  CASE k = "num" -> IF Tk(ts, p).s = "big" THEN No(p) ELSE Yes(IntL(Tk(ts, p).v), p + 1)
    [] k = "true" -> Yes(BoolL(TRUE), p + 1)
    [] k = "false" -> Yes(BoolL(FALSE), p + 1)
    [] k = "null" -> Yes(NullL, p + 1)
    [] k = "(" -> LET e == PExpr(ts, p + 1) IN IF e.ok /\ K(ts, e.p) = ")" THEN Yes(e.t, e.p + 1) ELSE No(e.p)
    [] k = "begin" -> IF K(ts, p + 1) = "end" THEN Yes(NullL, p + 2)
                      ELSE LET s == PSeq(ts, p + 1, FALSE, <<>>) IN
                           IF s.ok /\ K(ts, s.p) = "end" THEN Yes(BlockN(s.t), s.p + 1) ELSE No(s.p)
    [] k = "array" -> IF K(ts, p + 1) # "(" THEN No(p + 1) ELSE
                      LET a == PExpr(ts, p + 2) IN
                      IF ~a.ok \/ K(ts, a.p) # "," THEN No(a.p) ELSE
                      LET b == PExpr(ts, a.p + 1) IN
                      IF b.ok /\ K(ts, b.p) = ")" THEN Yes(ArrayN(a.t, b.t), b.p + 1) ELSE No(b.p)
    [] k = "id" -> IF K(ts, p + 1) = "(" THEN
                        LET a == PArgs(ts, p + 2, <<>>) IN IF a.ok THEN Yes(CallN(Tk(ts, p).s, a.t), a.p + 1) ELSE No(a.p)
                   ELSE YesK(Var(Tk(ts, p).s), p + 1, "id")
    [] OTHER -> No(p)
\* postfix chain:  ( "." name "(" args ")" | "." operator "(" args ")" | "." field | "[" expr "]" )*
PPostfix(ts, p, e, kind) ==
  IF K(ts, p) = "[" THEN
       LET i == PExpr(ts, p + 1) IN IF i.ok /\ K(ts, i.p) = "]" THEN PPostfix(ts, i.p + 1, Idx(e, i.t), "index") ELSE No(i.p)
  ELSE IF K(ts, p) = "." THEN
       LET nm == Tk(ts, p + 1) IN
       IF (nm.k \in {"id", "print"} \/ nm.k \in OperatorToks) /\ K(ts, p + 2) = "(" THEN
            LET a == PArgs(ts, p + 3, <<>>) IN
            IF a.ok THEN PPostfix(ts, a.p + 1, MCallN(e, IF nm.k = "id" THEN nm.s ELSE nm.k, a.t), "other") ELSE No(a.p)
       ELSE IF nm.k = "id" THEN PPostfix(ts, p + 2, GetF(e, nm.s), "field")
       ELSE No(p + 1)
  ELSE YesK(e, p, kind)
POperand(ts, p) == LET b == PPrimary(ts, p) IN IF b.ok THEN PPostfix(ts, b.p, b.t, b.kind) ELSE b
\* precedence climbing, left associative
RECURSIVE PClimb(_,_,_,_)
PClimb(ts, p, lhs, minl) ==
  IF K(ts, p) \notin OperatorToks \/ Level[K(ts, p)] < minl THEN Yes(lhs, p)
  ELSE LET op == K(ts, p)
           r == POperation(ts, p + 1, Level[op] + 1) IN
       IF ~r.ok THEN r ELSE PClimb(ts, r.p, MkOp(op, lhs, r.t), minl)
POperation(ts, p, minl) == LET o == POperand(ts, p) IN IF o.ok THEN PClimb(ts, o.p, o.t, minl) ELSE o

PExpr(ts, p) ==
  LET k == K(ts, p) IN
  CASE k = "let" -> IF ~IsIdent(ts, p + 1) \/ K(ts, p + 2) # "=" THEN No(p + 1) ELSE
                    LET v == PExpr(ts, p + 3) IN IF v.ok THEN Yes(LetN(Tk(ts, p + 1).s, v.t), v.p) ELSE v
    [] k = "if" -> LET c == PExpr(ts, p + 1) IN
                   IF ~c.ok \/ K(ts, c.p) # "then" THEN No(c.p) ELSE
                   LET a == PExpr(ts, c.p + 1) IN
                   IF ~a.ok THEN a
                   ELSE IF K(ts, a.p) = "else" THEN LET b == PExpr(ts, a.p + 1) IN IF b.ok THEN Yes(IfN(c.t, a.t, b.t), b.p) ELSE b
                   ELSE Yes(IfN(c.t, a.t, NullL), a.p)
    [] k = "while" -> LET c == PExpr(ts, p + 1) IN
                      IF ~c.ok \/ K(ts, c.p) # "do" THEN No(c.p) ELSE
                      LET b == PExpr(ts, c.p + 1) IN IF b.ok THEN Yes(WhileN(c.t, b.t), b.p) ELSE b
    [] k = "print" -> IF K(ts, p + 1) # "(" \/ K(ts, p + 2) # "str" THEN No(p + 1) ELSE
                      IF K(ts, p + 3) = ")" THEN Yes(PrintN(Tk(ts, p + 2).b, <<>>), p + 4)
                      ELSE IF K(ts, p + 3) # "," THEN No(p + 3)
                      ELSE LET a == PArgs(ts, p + 4, <<>>) IN IF a.ok THEN Yes(PrintN(Tk(ts, p + 2).b, a.t), a.p + 1) ELSE No(a.p)
    [] k = "object" -> LET par == IF K(ts, p + 1) = "extends" THEN PExpr(ts, p + 2) ELSE Yes(NullL, p + 1) IN
                       IF ~par.ok \/ K(ts, par.p) # "begin" THEN No(par.p) ELSE
                       LET ms == PMembers(ts, par.p + 1, <<>>) IN IF ms.ok THEN Yes(ObjectN(par.t, ms.t), ms.p) ELSE No(ms.p)
    [] OTHER -> \* an assignment (target = one operand written as identifier, .field chain or [index] chain), or an operation
                LET od == POperand(ts, p) IN
                IF ~od.ok THEN od
                ELSE IF K(ts, od.p) = "<-" /\ od.kind \in {"id", "field", "index"} THEN
                     LET v == PExpr(ts, od.p + 1) IN
                     IF ~v.ok THEN v
                     ELSE CASE od.kind = "id" -> Yes(AssignN(od.t.n, v.t), v.p)
                            [] od.kind = "field" -> Yes(SetF(od.t.o, od.t.n, v.t), v.p)
                            [] od.kind = "index" -> Yes(SetI(od.t.o, od.t.i, v.t), v.p)
                ELSE PClimb(ts, od.p, od.t, 1)

\* TopLevel: empty input is Top[null]
ParseTokens(ts) ==
  IF ts = <<>> THEN [ok |-> TRUE, tree |-> TopN(<<NullL>>)]
  ELSE LET s == PSeq(ts, 1, TRUE, <<>>) IN
       IF s.ok /\ s.p = Len(ts) + 1 THEN [ok |-> TRUE, tree |-> TopN(s.t)] ELSE [ok |-> FALSE, tree |-> NullL]
=============================================================================
