------------------------------ MODULE MC_Relayout ------------------------------
(* Generator for C05 (spec -> impl): programs another compiler could legally have produced.
   Input (env BCS): ndjson of [id, bytes] - real compiler outputs; for each, TLC decodes it,
   applies layouts chosen by a stride over the 128 layouts of FMLLayout, checks on the spec
   that the result is still WellFormed, and prints its bytes (TLA+ writer).  The real VM then
   executes them under the recorder and TraceVM validates every instruction.             *)
EXTENDS FMLLayout, TLC, Json, IOUtils
VARIABLES t, li

ASSUME TLCSet(1, ndJsonDeserialize(IOEnv.BCS))
Rec == TLCGet(1)
Stride == IF "STRIDE" \in DOMAIN IOEnv THEN CHOOSE k \in 1..128 : ToString(k) = IOEnv.STRIDE ELSE 16
RECURSIVE SetSeq(_)
SetSeq(S) == IF S = {} THEN <<>> ELSE LET x == CHOOSE y \in S : TRUE IN <<x>> \o SetSeq(S \ {x})
ASSUME TLCSet(2, SetSeq(Layouts))
LayoutSeq == TLCGet(2)

Init == t \in 1..Len(Rec) /\ li \in {i \in 1..Len(LayoutSeq) : (i + t) % Stride = 0}
Next == FALSE /\ t' = t /\ li' = li
Report == LET P == Decode(Rec[t].bytes)  L == LayoutSeq[li] IN
          IF ~P.ok \/ ~WellFormed(P) THEN PrintT(<<"SKIP", ToJson([id |-> Rec[t].id])>>)
          ELSE LET Q == Relayout(P, L) IN
               /\ WellFormed(Q) \/ PrintT(<<"SPECBAD", ToJson([id |-> Rec[t].id, li |-> li, why |-> WhyNotWF(Q)])>>)
               /\ PrintT(<<"REPLAY", ToJson([src |-> Rec[t].id, li |-> li, layout |-> L, bytes |-> Encode(Q)])>>)
=============================================================================
