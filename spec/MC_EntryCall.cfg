INIT Init
NEXT Next
INVARIANT Report
CHECK_DEADLOCK FALSE
