------------------------------ MODULE TraceSink ------------------------------
(* impl -> spec for C08: recorded conversations between the real Program::serialize and a
   chunking sink.  Input (env SINK): ndjson of
       [id, p (index of the program, whose bytes `expected` = what serializing to memory gives, are in env SINKP),
        calls : Seq([req : bytes, len, acc]), result, checklayout : "ok"|"err"|"panic"]
   acc >= 0: the sink accepted the first acc bytes of a request of len bytes (req = those bytes); -1: Interrupted; -2: hard error.
   Only the delivered stream is judged (FMLSink.PrefixInv after every call, FMLSink.Complete at
   the end), not the writer's internal protocol.  `expected` itself is checked against the
   independent TLA+ writer on the decoded program.                                        *)
EXTENDS FMLBytecode, TLC, Json, IOUtils
VARIABLES t, verdict
ASSUME TLCSet(1, ndJsonDeserialize(IOEnv.SINK))
Rec == TLCGet(1)
\* the expected byte streams, one per program (env SINKP: ndjson of [expected]); a conversation refers to its program by index p
ASSUME TLCSet(2, ndJsonDeserialize(IOEnv.SINKP))
Expected(r) == TLCGet(2)[r.p].expected
IsPrefix(a, b) == Len(a) <= Len(b) /\ SubSeq(b, 1, Len(a)) = a
\* walk the calls, tracking how many bytes the sink has received; each accepted chunk must be the next bytes of the
\* expected stream (so the received stream stays a prefix of it: FMLSink.PrefixInv).  Returns the first offending call (0 = none).
\* (two-level recursion: TLC's cost of one deep recursion grows quadratically with its depth, so the calls are walked in
\* blocks of 128)
RECURSIVE WalkTo(_,_,_,_,_)
WalkTo(calls, j, last, dlen, expected) ==
  IF j > last THEN [bad |-> 0, dlen |-> dlen]
  ELSE LET c == calls[j] IN
       IF c.acc <= 0 THEN WalkTo(calls, j + 1, last, dlen, expected)
       ELSE IF c.acc > c.len \/ Len(c.req) # c.acc \/ dlen + c.acc > Len(expected) \/ SubSeq(expected, dlen + 1, dlen + c.acc) # c.req
            THEN [bad |-> j, dlen |-> dlen]
            ELSE WalkTo(calls, j + 1, last, dlen + c.acc, expected)
RECURSIVE Walk(_,_,_,_)
Walk(calls, j, dlen, expected) ==
  IF j > Len(calls) THEN [bad |-> 0, dlen |-> dlen]
  ELSE LET last == IF j + 127 < Len(calls) THEN j + 127 ELSE Len(calls)
           w == WalkTo(calls, j, last, dlen, expected) IN
       IF w.bad # 0 THEN w ELSE Walk(calls, last + 1, w.dlen, expected)
SinkFaulted(calls) == \E j \in 1..Len(calls) : calls[j].acc \in {0, -2}
Judge(r) ==
  LET w == Walk(r.calls, 1, 0, Expected(r)) IN
  IF r.checklayout /\ (LET P == Decode(Expected(r)) IN ~P.ok \/ Encode(Abs(P)) # Expected(r)) THEN "expected-bytes-not-in-layout"
  ELSE IF w.bad # 0 THEN "not-a-prefix"
  ELSE IF r.result = "ok" /\ w.dlen # Len(Expected(r)) THEN "success-reported-after-dropping-bytes"   \* FMLSink.Complete
  ELSE IF r.result = "panic" THEN "panic"
  ELSE IF r.result = "err" /\ ~SinkFaulted(r.calls) THEN "error-reported-though-the-sink-never-failed"
  ELSE "ok"
\* one initial state per conversation; the judgement is a step so that TLC's workers share the batch
Init == t \in 1..Len(Rec) /\ verdict = "pending"
Next == verdict = "pending" /\ verdict' = Judge(Rec[t]) /\ t' = t
Report == verdict = "pending" \/ PrintT(<<"VERDICT", ToJson([id |-> Rec[t].id, verdict |-> verdict, calls |-> Len(Rec[t].calls)])>>)
=============================================================================
