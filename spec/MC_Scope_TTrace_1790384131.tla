---- MODULE MC_Scope_TTrace_1790384131 ----
EXTENDS Sequences, TLCExt, MC_Scope, Toolbox, Naturals, TLC

_expression ==
    LET MC_Scope_TEExpression == INSTANCE MC_Scope_TEExpression
    IN MC_Scope_TEExpression!expression
----

_trace ==
    LET MC_Scope_TETrace == INSTANCE MC_Scope_TETrace
    IN MC_Scope_TETrace!trace
----

_inv ==
    ~(
        TLCGet("level") = Len(_TETrace)
        /\
        stack = (<<>>)
        /\
        size = (1)
        /\
        toks = (<<"letx">>)
    )
----

_init ==
    /\ toks = _TETrace[1].toks
    /\ size = _TETrace[1].size
    /\ stack = _TETrace[1].stack
----

_next ==
    /\ \E i,j \in DOMAIN _TETrace:
        /\ \/ /\ j = i + 1
              /\ i = TLCGet("level")
        /\ toks  = _TETrace[i].toks
        /\ toks' = _TETrace[j].toks
        /\ size  = _TETrace[i].size
        /\ size' = _TETrace[j].size
        /\ stack  = _TETrace[i].stack
        /\ stack' = _TETrace[j].stack

\* Uncomment the ASSUME below to write the states of the error trace
\* to the given file in Json format. Note that you can pass any tuple
\* to `JsonSerialize`. For example, a sub-sequence of _TETrace.
    \* ASSUME
    \*     LET J == INSTANCE Json
    \*         IN J!JsonSerialize("MC_Scope_TTrace_1790384131.json", _TETrace)

=============================================================================

 Note that you can extract this module `MC_Scope_TEExpression`
  to a dedicated file to reuse `expression` (the module in the 
  dedicated `MC_Scope_TEExpression.tla` file takes precedence 
  over the module `MC_Scope_TEExpression` below).

---- MODULE MC_Scope_TEExpression ----
EXTENDS Sequences, TLCExt, MC_Scope, Toolbox, Naturals, TLC

expression == 
    [
        \* To hide variables of the `MC_Scope` spec from the error trace,
        \* remove the variables below.  The trace will be written in the order
        \* of the fields of this record.
        toks |-> toks
        ,size |-> size
        ,stack |-> stack
        
        \* Put additional constant-, state-, and action-level expressions here:
        \* ,_stateNumber |-> _TEPosition
        \* ,_toksUnchanged |-> toks = toks'
        
        \* Format the `toks` variable as Json value.
        \* ,_toksJson |->
        \*     LET J == INSTANCE Json
        \*     IN J!ToJson(toks)
        
        \* Lastly, you may build expressions over arbitrary sets of states by
        \* leveraging the _TETrace operator.  For example, this is how to
        \* count the number of times a spec variable changed up to the current
        \* state in the trace.
        \* ,_toksModCount |->
        \*     LET F[s \in DOMAIN _TETrace] ==
        \*         IF s = 1 THEN 0
        \*         ELSE IF _TETrace[s].toks # _TETrace[s-1].toks
        \*             THEN 1 + F[s-1] ELSE F[s-1]
        \*     IN F[_TEPosition - 1]
    ]

=============================================================================



Parsing and semantic processing can take forever if the trace below is long.
 In this case, it is advised to uncomment the module below to deserialize the
 trace from a generated binary file.

\*
\*---- MODULE MC_Scope_TETrace ----
\*EXTENDS IOUtils, MC_Scope, TLC
\*
\*trace == IODeserialize("MC_Scope_TTrace_1790384131.bin", TRUE)
\*
\*=============================================================================
\*

---- MODULE MC_Scope_TETrace ----
EXTENDS MC_Scope, TLC

trace == 
    <<
    ([stack |-> <<>>,size |-> 0,toks |-> <<>>]),
    ([stack |-> <<>>,size |-> 1,toks |-> <<"letx">>])
    >>
----


=============================================================================

---- CONFIG MC_Scope_TTrace_1790384131 ----

INVARIANT
    _inv

CHECK_DEADLOCK
    \* CHECK_DEADLOCK off because of PROPERTY or INVARIANT above.
    FALSE

INIT
    _init

NEXT
    _next

CONSTANT
    _TETrace <- _trace

ALIAS
    _expression
=============================================================================
\* Generated on Sat Sep 26 00:55:32 UTC 2026