---------------------------- MODULE FMLBytecode ----------------------------
(* The documented Feeny/FML binary layout (C04) as an independent reader `Decode` and
   writer `Encode`; the abstract program; `WellFormed` (C02); and the loader's image of
   a program (`Load`): code of all methods concatenated in pool order, label map,
   function table, global names.  Shares nothing with serializable.rs.

   abstract program:  [consts : Seq(Const), globals : Seq(0..65535), entry : 0..65535]
   Const: [k |-> "int", i] | [k |-> "null"] | [k |-> "bool", b] | [k |-> "str", bytes]
        | [k |-> "slot", name] | [k |-> "class", members]
        | [k |-> "method", name, arity, locals, code : Seq([op, a, n])]               *)
EXTENDS Integers, Sequences, FiniteSets, FMLInt32

OP_LABEL == 0   OP_LIT == 1     OP_PRINT == 2   OP_ARRAY == 3   OP_OBJECT == 4  OP_GETFLD == 5
OP_SETFLD == 6  OP_CALLM == 7   OP_CALLF == 8   OP_SETLOC == 9  OP_GETLOC == 10 OP_SETGLB == 11
OP_GETGLB == 12 OP_BRANCH == 13 OP_JUMP == 14   OP_RETURN == 15 OP_DROP == 16

\* operand layout per opcode: 0 = none, 2 = one u16, 3 = u16 + u8
OpShape == [i \in 0..16 |-> CASE i \in {3, 15, 16} -> 0 [] i \in {2, 7, 8} -> 3 [] OTHER -> 2]
InstrSize(ins) == 1 + OpShape[ins.op]

------------------------------------------------------------------------------
\* reader
Has(b, p, n) == p >= 1 /\ p + n - 1 <= Len(b)
U16(b, p) == b[p] + 256 * b[p+1]
\* u32 lengths: only values below 2^31 are representable here; larger ones are "not decodable"
U32ok(b, p) == b[p+3] < 128
U32(b, p) == b[p] + 256 * b[p+1] + 65536 * b[p+2] + 16777216 * b[p+3]
I32(b, p) == I32FromBytes(b[p], b[p+1], b[p+2], b[p+3])
NoGo(p) == [ok |-> FALSE, v |-> <<>>, p |-> p]

\* UTF-8 validity as Rust's String::from_utf8 defines it (no overlongs, no surrogates, <= U+10FFFF)
\* (walked in blocks of 256 positions: one deep recursion costs TLC quadratic time)
\* ValidRun(s, i, stop): validates characters starting at i until a character starts beyond `stop`;
\* returns the position of that character, or 0 if an invalid sequence was met
RECURSIVE ValidRun(_,_,_)
ValidRun(s, i, stop) ==
  IF i > Len(s) \/ i > stop THEN i ELSE
  LET c == s[i]
      cont(j) == j <= Len(s) /\ s[j] >= 128 /\ s[j] <= 191 IN
  IF c < 128 THEN ValidRun(s, i + 1, stop)
  ELSE IF c >= 194 /\ c <= 223 THEN (IF cont(i+1) THEN ValidRun(s, i + 2, stop) ELSE 0)
  ELSE IF c = 224 THEN (IF cont(i+1) /\ s[i+1] >= 160 /\ cont(i+2) THEN ValidRun(s, i + 3, stop) ELSE 0)
  ELSE IF (c >= 225 /\ c <= 236) \/ c = 238 \/ c = 239 THEN (IF cont(i+1) /\ cont(i+2) THEN ValidRun(s, i + 3, stop) ELSE 0)
  ELSE IF c = 237 THEN (IF cont(i+1) /\ s[i+1] <= 159 /\ cont(i+2) THEN ValidRun(s, i + 3, stop) ELSE 0)
  ELSE IF c = 240 THEN (IF cont(i+1) /\ s[i+1] >= 144 /\ cont(i+2) /\ cont(i+3) THEN ValidRun(s, i + 4, stop) ELSE 0)
  ELSE IF c >= 241 /\ c <= 243 THEN (IF cont(i+1) /\ cont(i+2) /\ cont(i+3) THEN ValidRun(s, i + 4, stop) ELSE 0)
  ELSE IF c = 244 THEN (IF cont(i+1) /\ s[i+1] <= 143 /\ cont(i+2) /\ cont(i+3) THEN ValidRun(s, i + 4, stop) ELSE 0)
  ELSE 0
RECURSIVE ValidUtf8From(_,_)
ValidUtf8From(s, i) == IF i > Len(s) THEN TRUE ELSE LET j == ValidRun(s, i, i + 255) IN IF j = 0 THEN FALSE ELSE ValidUtf8From(s, j)
ValidUtf8(s) == ValidUtf8From(s, 1)

DecodeInstr(b, p) ==
  IF ~Has(b, p, 1) \/ b[p] \notin 0..16 THEN NoGo(p) ELSE
  LET op == b[p] sh == OpShape[op] IN
  IF ~Has(b, p, 1 + sh) THEN NoGo(p) ELSE
  CASE sh = 0 -> [ok |-> TRUE, v |-> [op |-> op, a |-> 0, n |-> 0], p |-> p + 1]
    [] sh = 2 -> [ok |-> TRUE, v |-> [op |-> op, a |-> U16(b, p+1), n |-> 0], p |-> p + 3]
    [] sh = 3 -> [ok |-> TRUE, v |-> [op |-> op, a |-> U16(b, p+1), n |-> b[p+3]], p |-> p + 4]

\* n instructions from p, read in runs of 128 (one recursion as deep as a method is long costs TLC quadratic time)
RECURSIVE DecodeInstrRun(_,_,_,_)
DecodeInstrRun(b, p, n, acc) ==
  IF n = 0 THEN [ok |-> TRUE, v |-> acc, p |-> p]
  ELSE LET r == DecodeInstr(b, p) IN
       IF ~r.ok THEN NoGo(p) ELSE DecodeInstrRun(b, r.p, n - 1, Append(acc, r.v))
RECURSIVE DecodeInstrs(_,_,_,_)
DecodeInstrs(b, p, n, acc) ==
  LET take == IF n > 128 THEN 128 ELSE n
      r == DecodeInstrRun(b, p, take, <<>>) IN
  IF ~r.ok THEN r ELSE IF take = n THEN [ok |-> TRUE, v |-> acc \o r.v, p |-> r.p] ELSE DecodeInstrs(b, r.p, n - take, acc \o r.v)

DecodeU16s(b, p, n) ==
  IF ~Has(b, p, 2 * n) THEN NoGo(p)
  ELSE [ok |-> TRUE, v |-> [i \in 1..n |-> U16(b, p + 2 * (i - 1))], p |-> p + 2 * n]

DecodeConst(b, p) ==
  IF ~Has(b, p, 1) THEN NoGo(p) ELSE
  LET tag == b[p] IN
  CASE tag = 0 -> IF ~Has(b, p, 5) THEN NoGo(p) ELSE [ok |-> TRUE, v |-> [k |-> "int", i |-> I32(b, p+1)], p |-> p + 5]
    [] tag = 1 -> [ok |-> TRUE, v |-> [k |-> "null"], p |-> p + 1]
    [] tag = 2 -> IF ~Has(b, p, 5) \/ ~U32ok(b, p+1) THEN NoGo(p) ELSE
                  LET n == U32(b, p+1) IN
                  IF ~Has(b, p + 5, n) THEN NoGo(p) ELSE
                  LET s == [i \in 1..n |-> b[p + 4 + i]] IN
                  [ok |-> ValidUtf8(s), v |-> [k |-> "str", bytes |-> s], p |-> p + 5 + n]
    [] tag = 3 -> IF ~Has(b, p, 10) \/ ~U32ok(b, p+6) THEN NoGo(p) ELSE
                  LET n == U32(b, p+6)
                      r == DecodeInstrs(b, p + 10, n, <<>>) IN
                  [ok |-> r.ok, v |-> [k |-> "method", name |-> U16(b, p+1), arity |-> b[p+3], locals |-> U16(b, p+4), code |-> r.v], p |-> r.p]
    [] tag = 4 -> IF ~Has(b, p, 3) THEN NoGo(p) ELSE [ok |-> TRUE, v |-> [k |-> "slot", name |-> U16(b, p+1)], p |-> p + 3]
    [] tag = 5 -> IF ~Has(b, p, 3) THEN NoGo(p) ELSE
                  LET n == U16(b, p+1)
                      r == DecodeU16s(b, p + 3, n) IN
                  [ok |-> r.ok, v |-> [k |-> "class", members |-> r.v], p |-> r.p]
    [] tag = 6 -> IF ~Has(b, p, 2) THEN NoGo(p) ELSE [ok |-> b[p+1] \in {0,1}, v |-> [k |-> "bool", b |-> b[p+1] = 1], p |-> p + 2]
    [] OTHER -> NoGo(p)

RECURSIVE DecodeConstRun(_,_,_,_)
DecodeConstRun(b, p, n, acc) ==
  IF n = 0 THEN [ok |-> TRUE, v |-> acc, p |-> p]
  ELSE LET r == DecodeConst(b, p) IN
       IF ~r.ok THEN NoGo(p) ELSE DecodeConstRun(b, r.p, n - 1, Append(acc, r.v))
RECURSIVE DecodeConsts(_,_,_,_)
DecodeConsts(b, p, n, acc) ==
  LET take == IF n > 128 THEN 128 ELSE n
      r == DecodeConstRun(b, p, take, <<>>) IN
  IF ~r.ok THEN r ELSE IF take = n THEN [ok |-> TRUE, v |-> acc \o r.v, p |-> r.p] ELSE DecodeConsts(b, r.p, n - take, acc \o r.v)

BadProgram == [ok |-> FALSE, consts |-> <<>>, globals |-> <<>>, entry |-> 0, rest |-> 0]
\* ok: the bytes are a complete file in the layout; rest = number of trailing bytes (must be 0 for files the toolchain emits)
Decode(b) ==
  IF ~Has(b, 1, 2) THEN BadProgram ELSE
  LET cs == DecodeConsts(b, 3, U16(b, 1), <<>>) IN
  IF ~cs.ok \/ ~Has(b, cs.p, 2) THEN BadProgram ELSE
  LET gs == DecodeU16s(b, cs.p + 2, U16(b, cs.p)) IN
  IF ~gs.ok \/ ~Has(b, gs.p, 2) THEN BadProgram ELSE
  [ok |-> TRUE, consts |-> cs.v, globals |-> gs.v, entry |-> U16(b, gs.p), rest |-> Len(b) - (gs.p + 1)]

------------------------------------------------------------------------------
\* writer
U16Bytes(n) == << n % 256, n \div 256 >>
U32Bytes(n) == << n % 256, (n \div 256) % 256, (n \div 65536) % 256, n \div 16777216 >>
\* concatenation of a sequence of sequences, by halving (logarithmic recursion depth)
RECURSIVE FlattenR(_,_,_)
FlattenR(ss, lo, hi) == IF lo > hi THEN <<>> ELSE IF lo = hi THEN ss[lo] ELSE LET mid == (lo + hi) \div 2 IN FlattenR(ss, lo, mid) \o FlattenR(ss, mid + 1, hi)
Flatten(ss) == FlattenR(ss, 1, Len(ss))
EncodeInstr(ins) ==
  CASE OpShape[ins.op] = 0 -> <<ins.op>>
    [] OpShape[ins.op] = 2 -> <<ins.op>> \o U16Bytes(ins.a)
    [] OpShape[ins.op] = 3 -> <<ins.op>> \o U16Bytes(ins.a) \o <<ins.n>>
EncodeU16s(v) == Flatten([i \in 1..Len(v) |-> U16Bytes(v[i])])
EncodeConst(c) ==
  CASE c.k = "int"    -> <<0>> \o I32Bytes(c.i)
    [] c.k = "null"   -> <<1>>
    [] c.k = "str"    -> <<2>> \o U32Bytes(Len(c.bytes)) \o c.bytes
    [] c.k = "method" -> <<3>> \o U16Bytes(c.name) \o <<c.arity>> \o U16Bytes(c.locals) \o U32Bytes(Len(c.code))
                              \o Flatten([i \in 1..Len(c.code) |-> EncodeInstr(c.code[i])])
    [] c.k = "slot"   -> <<4>> \o U16Bytes(c.name)
    [] c.k = "class"  -> <<5>> \o U16Bytes(Len(c.members)) \o EncodeU16s(c.members)
    [] c.k = "bool"   -> <<6, IF c.b THEN 1 ELSE 0>>
Encode(P) == U16Bytes(Len(P.consts)) \o Flatten([i \in 1..Len(P.consts) |-> EncodeConst(P.consts[i])])
             \o U16Bytes(Len(P.globals)) \o EncodeU16s(P.globals) \o U16Bytes(P.entry)

\* the abstract content of a decoded / projected program (what a save/load cycle must preserve)
Abs(P) == [consts |-> P.consts, globals |-> P.globals, entry |-> P.entry]

------------------------------------------------------------------------------
\* static well-formedness of a program (C02, first sentence)
NC(P) == Len(P.consts)
CAt(P, i) == P.consts[i + 1]
IsKind(P, i, ks) == i < NC(P) /\ CAt(P, i).k \in ks
MethodIdxs(P) == {i \in 0..NC(P)-1 : CAt(P, i).k = "method"}
LabelSitesOf(P, m) == {pc \in 1..Len(CAt(P, m).code) : CAt(P, m).code[pc].op = OP_LABEL}
\* number of Label instructions program-wide that carry the string constant index a
\* (labels are program-global names: the name is the string, so compare by string content)
StrOf(P, i) == CAt(P, i).bytes
LabelDefs(P, name) == {<<m, pc>> \in UNION {{<<m, pc>> : pc \in LabelSitesOf(P, m)} : m \in MethodIdxs(P)} :
                          IsKind(P, CAt(P, m).code[pc].a, {"str"}) /\ StrOf(P, CAt(P, m).code[pc].a) = name}
InstrOK(P, m, pc) ==
  LET c == CAt(P, m)  ins == c.code[pc]  op == ins.op  a == ins.a IN
  CASE op = OP_LIT    -> IsKind(P, a, {"int", "null", "bool"})
    [] op \in {OP_PRINT, OP_GETFLD, OP_SETFLD, OP_CALLF, OP_SETGLB, OP_GETGLB, OP_LABEL} -> IsKind(P, a, {"str"})
    [] op = OP_CALLM  -> IsKind(P, a, {"str"}) /\ ins.n >= 1
    [] op = OP_OBJECT -> IsKind(P, a, {"class"}) /\
                         \A j \in 1..Len(CAt(P, a).members) :
                            LET mi == CAt(P, a).members[j] IN
                            IsKind(P, mi, {"slot", "method"}) /\ IsKind(P, CAt(P, mi).name, {"str"})
    [] op \in {OP_SETLOC, OP_GETLOC} -> a < c.arity + c.locals
    [] op \in {OP_BRANCH, OP_JUMP} ->
          IsKind(P, a, {"str"}) /\
          LET defs == LabelDefs(P, StrOf(P, a)) IN
          Cardinality(defs) = 1 /\ \A d \in defs : d[1] = m       \* defined exactly once program-wide, in this method
    [] OTHER -> TRUE
MethodOK(P, m) == IsKind(P, CAt(P, m).name, {"str"}) /\ \A pc \in 1..Len(CAt(P, m).code) : InstrOK(P, m, pc)
\* every label name is defined at most once program-wide
LabelsUnique(P) == \A m \in MethodIdxs(P) : \A pc \in LabelSitesOf(P, m) :
                     LET a == CAt(P, m).code[pc].a IN IsKind(P, a, {"str"}) => Cardinality(LabelDefs(P, StrOf(P, a))) = 1
ConstOK(P, i) == LET c == CAt(P, i) IN
  CASE c.k = "slot"  -> IsKind(P, c.name, {"str"})
    [] c.k = "class" -> \A j \in 1..Len(c.members) : IsKind(P, c.members[j], {"slot", "method"})
    [] c.k = "method" -> MethodOK(P, i)
    [] OTHER -> TRUE
GlobalsOK(P) == /\ \A j \in 1..Len(P.globals) : IsKind(P, P.globals[j], {"slot", "method"})
                /\ \A j, k \in 1..Len(P.globals) : j # k => P.globals[j] # P.globals[k]
EntryOK(P) == IsKind(P, P.entry, {"method"}) /\ CAt(P, P.entry).arity = 0
WellFormed(P) == /\ \A i \in 0..NC(P)-1 : ConstOK(P, i)
                 /\ LabelsUnique(P) /\ GlobalsOK(P) /\ EntryOK(P)
\* first reason a program is not well-formed (for diagnostics in verdicts)
WhyNotWF(P) ==
  IF ~EntryOK(P) THEN "entry" ELSE IF ~GlobalsOK(P) THEN "globals" ELSE IF ~LabelsUnique(P) THEN "label-unique"
  ELSE IF \E i \in 0..NC(P)-1 : ~ConstOK(P, i) THEN "const" ELSE "ok"

------------------------------------------------------------------------------
\* the loader's image: what Program::from_bytes + State::from build
RECURSIVE BaseOf(_,_)
BaseOf(P, m) == IF m = 0 THEN 0 ELSE BaseOf(P, m - 1) + (IF CAt(P, m - 1).k = "method" THEN Len(CAt(P, m - 1).code) ELSE 0)
FlatCode(P) == Flatten([i \in 1..NC(P) |-> IF P.consts[i].k = "method" THEN P.consts[i].code ELSE <<>>])
Load(P) ==
  LET code == FlatCode(P)
      base == [m \in 0..NC(P) |-> BaseOf(P, m)]
      lsites == {a \in 1..Len(code) : code[a].op = OP_LABEL}
      \* the loader needs every Label operand to be a string constant (it panics otherwise)
      labelsOK == \A a \in lsites : IsKind(P, code[a].a, {"str"})
      lname(a) == StrOf(P, code[a].a)
      lnames == {lname(a) : a \in lsites}
      \* duplicate label names: the last definition wins (HashMap collect)
      labels == [nm \in lnames |-> LET hits == {a \in lsites : lname(a) = nm} IN (CHOOSE a \in hits : \A a2 \in hits : a2 <= a) - 1]
      gset == {P.globals[i] : i \in 1..Len(P.globals)}
      globalsOK == \A g \in gset : IsKind(P, g, {"slot", "method"})
      slotg == {g \in gset : CAt(P, g).k = "slot"}
      funsg == {g \in gset : CAt(P, g).k = "method"}
      namesOK == globalsOK /\ (\A g \in slotg \cup funsg : IsKind(P, CAt(P, g).name, {"str"}))
      gname(g) == StrOf(P, CAt(P, g).name)
      gseq == SelectSeq(P.globals, LAMBDA g : CAt(P, g).k = "slot")
      fseq == SelectSeq(P.globals, LAMBDA g : CAt(P, g).k = "method")
      nodupG == \A i, j \in 1..Len(gseq) : i # j => gname(gseq[i]) # gname(gseq[j])
      nodupF == \A i, j \in 1..Len(fseq) : i # j => gname(fseq[i]) # gname(fseq[j])
      entryOK == IsKind(P, P.entry, {"method"})
  IN [ consts |-> P.consts, code |-> code, base |-> base, total |-> Len(code),
       loadable |-> labelsOK,                                     \* from_bytes does not panic
       startable |-> labelsOK /\ namesOK /\ nodupG /\ nodupF /\ entryOK, \* State::from succeeds
       labels |-> IF labelsOK THEN labels ELSE <<>>,
       gnames |-> IF namesOK THEN {gname(g) : g \in slotg} ELSE {},
       funs |-> IF namesOK /\ nodupF THEN [nm \in {gname(g) : g \in funsg} |-> CHOOSE g \in funsg : gname(g) = nm] ELSE <<>>,
       entry |-> P.entry ]
=============================================================================
