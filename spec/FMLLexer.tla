------------------------------- MODULE FMLLexer -------------------------------
(* The lexical grammar of FML (the `match` block of fml.lalrpop read as documentation) over a
   text given as a sequence of Unicode code points (C07): whitespace and comments are skipped
   (// to end of line; / * ... * / not nested, may span lines, any UTF-8 inside), then at each
   position the LONGEST token is taken; a keyword wins over an identifier of the same length.
     NUMBER      -?[0-9]+            IDENTIFIER  [_A-Za-z][_A-Za-z0-9]*
     STRING      " ( any char but \ and "  |  \ followed by one of ~ n t r \ " )* "
   Lex(cps, names) = [ok, toks]; toks are FMLParser tokens.  TLA+ cannot build a string from
   characters, so the spelling of every identifier and keyword comes from the table `names`
   (Seq([s, b]) : string and its code points) supplied with the text.
   ParseText = the whole front end: Lex then FMLParser.ParseTokens.                      *)
EXTENDS FMLParser

WS == {9, 10, 11, 12, 13, 32, 133, 160, 5760, 8232, 8233, 8239, 8287, 12288} \cup (8192..8202)
IsDigit(c) == c >= 48 /\ c <= 57
IsIdStart(c) == c = 95 \/ (c >= 65 /\ c <= 90) \/ (c >= 97 /\ c <= 122)
IsIdChar(c) == IsIdStart(c) \/ IsDigit(c)
At(t, i) == IF i <= Len(t) THEN t[i] ELSE -1

\* end of the longest run of characters satisfying a class, starting at i (position after the run)
RECURSIVE RunDigits(_,_), RunIdent(_,_)
RunDigits(t, i) == IF IsDigit(At(t, i)) THEN RunDigits(t, i + 1) ELSE i
RunIdent(t, i) == IF At(t, i) # -1 /\ IsIdChar(At(t, i)) THEN RunIdent(t, i + 1) ELSE i
\* string literal starting at the opening quote i: position after the closing quote, or 0 if it is not a string token
RECURSIVE RunString(_,_)
RunString(t, i) == LET c == At(t, i) IN
  IF c = -1 THEN 0
  ELSE IF c = 34 THEN i + 1
  ELSE IF c = 92 THEN (IF At(t, i + 1) \in {126, 110, 116, 114, 92, 34} THEN RunString(t, i + 2) ELSE 0)
  ELSE RunString(t, i + 1)
\* block comment opened at i (t[i] = "/", t[i+1] = "*"): position after the first "*/" found from i + 2, or 0 if unterminated
RECURSIVE RunBlockComment(_,_)
RunBlockComment(t, j) == IF At(t, j) = -1 THEN 0 ELSE IF At(t, j) = 42 /\ At(t, j + 1) = 47 THEN j + 2 ELSE RunBlockComment(t, j + 1)
RECURSIVE RunLine(_,_)
RunLine(t, j) == IF At(t, j) \in {-1, 10} THEN j ELSE RunLine(t, j + 1)
\* skip whitespace and comments
RECURSIVE Skip(_,_)
Skip(t, i) ==
  LET c == At(t, i) IN
  IF c \in WS THEN Skip(t, i + 1)
  ELSE IF c = 47 /\ At(t, i + 1) = 47 THEN Skip(t, RunLine(t, i + 2))
  ELSE IF c = 47 /\ At(t, i + 1) = 42 THEN (LET e == RunBlockComment(t, i + 2) IN IF e = 0 THEN i ELSE Skip(t, e))
  ELSE i

Keywords == {"begin", "end", "if", "then", "else", "let", "null", "print", "object", "extends", "while", "do", "function", "array", "true", "false"}
\* the spelling table: code points -> string
NameOf(names, cp) == LET hit == {k \in 1..Len(names) : names[k].b = cp} IN IF hit = {} THEN "?" ELSE names[CHOOSE k \in hit : TRUE].s
Tok(k, s, v, b) == [k |-> k, s |-> s, v |-> v, b |-> b]
\* decimal value of a digit run with sign; "big" when it does not fit 32 bits
RECURSIVE DigitsVal(_,_,_)
DigitsVal(ds, i, acc) == IF i > Len(ds) THEN acc ELSE DigitsVal(ds, i + 1, acc * 10 + (ds[i] - 48))
RECURSIVE StripZeros(_)
StripZeros(ds) == IF Len(ds) > 1 /\ ds[1] = 48 THEN StripZeros(Tail(ds)) ELSE ds
NumTok(neg, ds0) ==
  LET ds == StripZeros(ds0) IN
  IF Len(ds) > 10 THEN Tok("num", "big", 0, <<>>) ELSE
  LET nlo == IF Len(ds) > 5 THEN 5 ELSE Len(ds)
      hi == DigitsVal(SubSeq(ds, 1, Len(ds) - nlo), 1, 0)
      lo == DigitsVal(SubSeq(ds, Len(ds) - nlo + 1, Len(ds)), 1, 0)
      limit == IF neg THEN 83648 ELSE 83647 IN
  IF hi > 21474 \/ (hi = 21474 /\ lo > limit) THEN Tok("num", "big", 0, <<>>)
  ELSE IF neg /\ hi = 21474 /\ lo = 83648 THEN Tok("num", "", -2147483647 - 1, <<>>)
  ELSE Tok("num", "", IF neg THEN -(hi * 100000 + lo) ELSE hi * 100000 + lo, <<>>)
\* UTF-8 bytes of a sequence of code points (string literals keep their raw text)
Utf8Of(c) == IF c < 128 THEN <<c>>
             ELSE IF c < 2048 THEN <<192 + (c \div 64), 128 + (c % 64)>>
             ELSE IF c < 65536 THEN <<224 + (c \div 4096), 128 + ((c \div 64) % 64), 128 + (c % 64)>>
             ELSE <<240 + (c \div 262144), 128 + ((c \div 4096) % 64), 128 + ((c \div 64) % 64), 128 + (c % 64)>>
RECURSIVE CatR(_,_,_)
CatR(ss, lo, hi) == IF lo > hi THEN <<>> ELSE IF lo = hi THEN ss[lo] ELSE LET mid == (lo + hi) \div 2 IN CatR(ss, lo, mid) \o CatR(ss, mid + 1, hi)
Utf8(cs) == CatR([k \in 1..Len(cs) |-> Utf8Of(cs[k])], 1, Len(cs))

\* one token at position i (i is not whitespace / comment / end): [ok, tok, p]
NextToken(t, i, names) ==
  LET c == At(t, i)  d == At(t, i + 1)
      fixed(k, n) == [ok |-> TRUE, tok |-> Tok(k, "", 0, <<>>), p |-> i + n] IN
  IF IsDigit(c) \/ (c = 45 /\ IsDigit(d)) THEN
       LET s == IF c = 45 THEN i + 1 ELSE i   e == RunDigits(t, s) IN [ok |-> TRUE, tok |-> NumTok(c = 45, SubSeq(t, s, e - 1)), p |-> e]
  ELSE IF IsIdStart(c) THEN
       LET e == RunIdent(t, i)  w == NameOf(names, SubSeq(t, i, e - 1)) IN
       [ok |-> w # "?", tok |-> IF w \in Keywords THEN Tok(w, "", 0, <<>>) ELSE Tok("id", w, 0, <<>>), p |-> e]
  ELSE IF c = 34 THEN LET e == RunString(t, i + 1) IN
       IF e = 0 THEN [ok |-> FALSE, tok |-> Tok("bad", "", 0, <<>>), p |-> i] ELSE [ok |-> TRUE, tok |-> Tok("str", "", 0, Utf8(SubSeq(t, i + 1, e - 2))), p |-> e]
  ELSE CASE c = 60 -> IF d = 61 THEN fixed("<=", 2) ELSE IF d = 45 THEN fixed("<-", 2) ELSE fixed("<", 1)
         [] c = 62 -> IF d = 61 THEN fixed(">=", 2) ELSE fixed(">", 1)
         [] c = 61 -> IF d = 61 THEN fixed("==", 2) ELSE fixed("=", 1)
         [] c = 33 -> IF d = 61 THEN fixed("!=", 2) ELSE [ok |-> FALSE, tok |-> Tok("bad", "", 0, <<>>), p |-> i]
         [] c = 45 -> IF d = 62 THEN fixed("->", 2) ELSE fixed("-", 1)
         [] c = 124 -> fixed("|", 1) [] c = 38 -> fixed("&", 1) [] c = 43 -> fixed("+", 1) [] c = 47 -> fixed("/", 1)
         [] c = 42 -> fixed("*", 1) [] c = 37 -> fixed("%", 1) [] c = 40 -> fixed("(", 1) [] c = 41 -> fixed(")", 1)
         [] c = 91 -> fixed("[", 1) [] c = 93 -> fixed("]", 1) [] c = 46 -> fixed(".", 1) [] c = 44 -> fixed(",", 1) [] c = 59 -> fixed(";", 1)
         [] OTHER -> [ok |-> FALSE, tok |-> Tok("bad", "", 0, <<>>), p |-> i]
\* tokens in runs of 64 (one deep recursion would cost TLC quadratic time)
RECURSIVE LexRun(_,_,_,_,_)
LexRun(t, i, names, acc, n) ==
  LET j == Skip(t, i) IN
  IF j > Len(t) THEN [ok |-> TRUE, toks |-> acc, p |-> j, done |-> TRUE]
  ELSE IF n = 0 THEN [ok |-> TRUE, toks |-> acc, p |-> j, done |-> FALSE]
  ELSE LET k == NextToken(t, j, names) IN
       IF ~k.ok THEN [ok |-> FALSE, toks |-> acc, p |-> j, done |-> TRUE] ELSE LexRun(t, k.p, names, Append(acc, k.tok), n - 1)
RECURSIVE LexFrom(_,_,_,_)
LexFrom(t, i, names, acc) == LET r == LexRun(t, i, names, <<>>, 64) IN
                             IF ~r.ok THEN [ok |-> FALSE, toks |-> acc] ELSE IF r.done THEN [ok |-> TRUE, toks |-> acc \o r.toks] ELSE LexFrom(t, r.p, names, acc \o r.toks)
Lex(t, names) == LexFrom(t, 1, names, <<>>)
ParseText(t, names) == LET l == Lex(t, names) IN IF l.ok THEN ParseTokens(l.toks) ELSE [ok |-> FALSE, tree |-> NullL]
=============================================================================
