---------------------------- MODULE FMLObservations ----------------------------
(* Histories of observations of a deterministic system (C11, C16): a result is a function of
   its key.  Input (env OBS): ndjson of [key, val, cfg]; `cfg` (run number, process, build
   profile, flags) is recorded but is not allowed to influence `val`.  One behaviour walks the
   history: Observe is enabled iff the key is new or was seen with the same value; the first
   observation that is not enabled ends the walk with a verdict naming it; the walk then
   continues after it so that every inconsistent key is reported.                          *)
EXTENDS Integers, Sequences, FiniteSets, TLC, Json, IOUtils
VARIABLES l, seen, bad

ASSUME TLCSet(1, ndJsonDeserialize(IOEnv.OBS))
Obs == TLCGet(1)
Init == l = 1 /\ seen = [k \in {} |-> 0] /\ bad = 0
Observe == /\ l <= Len(Obs)
           /\ LET o == Obs[l] IN
              IF o.key \notin DOMAIN seen THEN seen' = (o.key :> [val |-> o.val, at |-> l]) @@ seen /\ bad' = 0
              ELSE IF seen[o.key].val = o.val THEN UNCHANGED seen /\ bad' = 0
              ELSE UNCHANGED seen /\ bad' = seen[o.key].at           \* same key, different value: not a function
           /\ l' = l + 1
Next == Observe
Report == /\ bad = 0 \/ PrintT(<<"INCONSISTENT", ToJson([first |-> bad, second |-> l - 1, key |-> Obs[l - 1].key])>>)
          /\ l <= Len(Obs) \/ PrintT(<<"DONE", ToJson([observations |-> Len(Obs), keys |-> Cardinality(DOMAIN seen)])>>)
=============================================================================
