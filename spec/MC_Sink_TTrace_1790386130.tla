---- MODULE MC_Sink_TTrace_1790386130 ----
EXTENDS Sequences, TLCExt, Toolbox, Naturals, TLC, MC_Sink

_expression ==
    LET MC_Sink_TEExpression == INSTANCE MC_Sink_TEExpression
    IN MC_Sink_TEExpression!expression
----

_trace ==
    LET MC_Sink_TETrace == INSTANCE MC_Sink_TETrace
    IN MC_Sink_TETrace!trace
----

_inv ==
    ~(
        TLCGet("level") = Len(_TETrace)
        /\
        i = (3)
        /\
        delivered = (<<2>>)
        /\
        faults = (0)
        /\
        off = (0)
        /\
        status = ("writing")
    )
----

_init ==
    /\ faults = _TETrace[1].faults
    /\ i = _TETrace[1].i
    /\ off = _TETrace[1].off
    /\ status = _TETrace[1].status
    /\ delivered = _TETrace[1].delivered
----

_next ==
    /\ \E i,j \in DOMAIN _TETrace:
        /\ \/ /\ j = i + 1
              /\ i = TLCGet("level")
        /\ faults  = _TETrace[i].faults
        /\ faults' = _TETrace[j].faults
        /\ i  = _TETrace[i].i
        /\ i' = _TETrace[j].i
        /\ off  = _TETrace[i].off
        /\ off' = _TETrace[j].off
        /\ status  = _TETrace[i].status
        /\ status' = _TETrace[j].status
        /\ delivered  = _TETrace[i].delivered
        /\ delivered' = _TETrace[j].delivered

\* Uncomment the ASSUME below to write the states of the error trace
\* to the given file in Json format. Note that you can pass any tuple
\* to `JsonSerialize`. For example, a sub-sequence of _TETrace.
    \* ASSUME
    \*     LET J == INSTANCE Json
    \*         IN J!JsonSerialize("MC_Sink_TTrace_1790386130.json", _TETrace)

=============================================================================

 Note that you can extract this module `MC_Sink_TEExpression`
  to a dedicated file to reuse `expression` (the module in the 
  dedicated `MC_Sink_TEExpression.tla` file takes precedence 
  over the module `MC_Sink_TEExpression` below).

---- MODULE MC_Sink_TEExpression ----
EXTENDS Sequences, TLCExt, Toolbox, Naturals, TLC, MC_Sink

expression == 
    [
        \* To hide variables of the `MC_Sink` spec from the error trace,
        \* remove the variables below.  The trace will be written in the order
        \* of the fields of this record.
        faults |-> faults
        ,i |-> i
        ,off |-> off
        ,status |-> status
        ,delivered |-> delivered
        
        \* Put additional constant-, state-, and action-level expressions here:
        \* ,_stateNumber |-> _TEPosition
        \* ,_faultsUnchanged |-> faults = faults'
        
        \* Format the `faults` variable as Json value.
        \* ,_faultsJson |->
        \*     LET J == INSTANCE Json
        \*     IN J!ToJson(faults)
        
        \* Lastly, you may build expressions over arbitrary sets of states by
        \* leveraging the _TETrace operator.  For example, this is how to
        \* count the number of times a spec variable changed up to the current
        \* state in the trace.
        \* ,_faultsModCount |->
        \*     LET F[s \in DOMAIN _TETrace] ==
        \*         IF s = 1 THEN 0
        \*         ELSE IF _TETrace[s].faults # _TETrace[s-1].faults
        \*             THEN 1 + F[s-1] ELSE F[s-1]
        \*     IN F[_TEPosition - 1]
    ]

=============================================================================



Parsing and semantic processing can take forever if the trace below is long.
 In this case, it is advised to uncomment the module below to deserialize the
 trace from a generated binary file.

\*
\*---- MODULE MC_Sink_TETrace ----
\*EXTENDS IOUtils, TLC, MC_Sink
\*
\*trace == IODeserialize("MC_Sink_TTrace_1790386130.bin", TRUE)
\*
\*=============================================================================
\*

---- MODULE MC_Sink_TETrace ----
EXTENDS TLC, MC_Sink

trace == 
    <<
    ([i |-> 1,delivered |-> <<>>,faults |-> 0,off |-> 0,status |-> "writing"]),
    ([i |-> 2,delivered |-> <<>>,faults |-> 0,off |-> 0,status |-> "writing"]),
    ([i |-> 3,delivered |-> <<2>>,faults |-> 0,off |-> 0,status |-> "writing"])
    >>
----


=============================================================================

---- CONFIG MC_Sink_TTrace_1790386130 ----
CONSTANTS
    Segs <- MCSegs
    Writer = "once"
    MaxFaults = 2

INVARIANT
    _inv

CHECK_DEADLOCK
    \* CHECK_DEADLOCK off because of PROPERTY or INVARIANT above.
    FALSE

INIT
    _init

NEXT
    _next

CONSTANT
    _TETrace <- _trace

ALIAS
    _expression
=============================================================================
\* Generated on Sat Sep 26 01:28:50 UTC 2026