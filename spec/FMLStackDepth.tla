---------------------------- MODULE FMLStackDepth ----------------------------
(* Static operand-stack accounting of bytecode (C02): per-instruction stack effect, control-flow
   successors inside a method, and the reference dataflow DepthMap (depth at each pc relative to
   the method's entry, -1 = unreachable).  Pure definitions, shared by FMLVerifier (which explores
   every path) and TraceVM (which compares the depth the real VM has at run time with the static
   one: RuntimeDepth = StaticDepth).                                                        *)
EXTENDS FMLBytecode

Code(P, mi) == CAt(P, mi).code
NSlots(P, ci) == Cardinality({j \in 1..Len(CAt(P, ci).members) : IsKind(P, CAt(P, ci).members[j], {"slot"})})
\* <<operands required on the stack, net change>>
Effect(P, ins) ==
  LET op == ins.op IN
  CASE op = OP_LABEL -> <<0, 0>>   [] op = OP_LIT -> <<0, 1>>     [] op = OP_PRINT -> <<ins.n, 1 - ins.n>>
    [] op = OP_ARRAY -> <<2, -1>>  [] op = OP_OBJECT -> LET k == IF IsKind(P, ins.a, {"class"}) THEN NSlots(P, ins.a) + 1 ELSE 1 IN <<k, 1 - k>>
    [] op = OP_GETFLD -> <<1, 0>>  [] op = OP_SETFLD -> <<2, -1>>
    [] op = OP_CALLM -> <<ins.n, 1 - ins.n>>  [] op = OP_CALLF -> <<ins.n, 1 - ins.n>>
    [] op = OP_SETLOC -> <<1, 0>>  [] op = OP_GETLOC -> <<0, 1>>  [] op = OP_SETGLB -> <<1, 0>>  [] op = OP_GETGLB -> <<0, 1>>
    [] op = OP_BRANCH -> <<1, -1>> [] op = OP_JUMP -> <<0, 0>>    [] op = OP_RETURN -> <<1, 0>>   [] op = OP_DROP -> <<1, -1>>
\* pc of the label a jump in method mi refers to (0 if it is not defined in this method)
Target(P, mi, a) ==
  IF ~IsKind(P, a, {"str"}) THEN 0 ELSE
  LET hits == {q \in LabelSitesOf(P, mi) : IsKind(P, Code(P, mi)[q].a, {"str"}) /\ StrOf(P, Code(P, mi)[q].a) = StrOf(P, a)} IN
  IF hits = {} THEN 0 ELSE CHOOSE q \in hits : \A q2 \in hits : q <= q2
Succs(P, mi, p) ==
  LET ins == Code(P, mi)[p] IN
  CASE ins.op = OP_RETURN -> {}
    [] ins.op = OP_JUMP   -> {Target(P, mi, ins.a)}
    [] ins.op = OP_BRANCH -> {Target(P, mi, ins.a), p + 1}
    [] OTHER -> {p + 1}

\* reference dataflow: first depth that reaches each pc along a worklist traversal (unreached is encoded as -1).
\* Successors and net effects are tabulated once per method (explicit tuples), and the worklist is processed in runs of
\* 128 items: one recursion as deep as the method is long, or a function given by a rule under EXCEPT, costs TLC quadratic time.
Tup(f) == Tail(<<0>> \o f)
RECURSIVE FlowRun(_,_,_,_,_)
FlowRun(succ, net, work, map, k) ==
  IF work = {} \/ k = 0 THEN <<work, map>> ELSE
  LET w == CHOOSE x \in work : TRUE
      p == w[1]  dd == w[2] IN
  IF p < 1 \/ p > Len(map) \/ map[p] # -1 THEN FlowRun(succ, net, work \ {w}, map, k - 1)
  ELSE FlowRun(succ, net, (work \ {w}) \cup {<<q, dd + net[p]>> : q \in succ[p]}, [map EXCEPT ![p] = dd], k - 1)
RECURSIVE Flow(_,_,_,_)
Flow(succ, net, work, map) == LET r == FlowRun(succ, net, work, map, 128) IN IF r[1] = {} THEN r[2] ELSE Flow(succ, net, r[1], r[2])
DepthMap(P, mi) ==
  LET n == Len(Code(P, mi)) IN
  Flow(Tup([p \in 1..n |-> Succs(P, mi, p)]), Tup([p \in 1..n |-> Effect(P, Code(P, mi)[p])[2]]), {<<1, 0>>}, Tup([p \in 1..n |-> -1]))
=============================================================================
