------------------------------ MODULE MC_Print ------------------------------
(* C15 generator: every format string up to length MaxLen over the alphabet
   { ~  \  n  "  a  LF  e-acute } with 0..3 arguments.  For each one in the bytecode-level
   quantifier (no dangling backslash) a 3-instruction-style bytecode program is encoded with
   the TLA+ writer; for each one the lexer admits, the line is flagged `src` so the driver also
   builds the source program print("...", args).  Arguments: 7, null, [true, true]; in the `nasty` variant
   (bytecode level only: no source text can name such a slot) the first argument is an object whose slot name
   itself contains a backslash, the letter n, a tilde and a quote - a rendered value is inserted as it is and is
   never scanned for escapes or placeholders.                                                          *)
EXTENDS FMLBytecode, FMLSyntax, TLC, Json, IOUtils
VARIABLES f, nargs, nasty

MaxLen == IF "MAXLEN" \in DOMAIN IOEnv THEN CHOOSE k \in 0..6 : ToString(k) = IOEnv.MAXLEN ELSE 3
Alphabet == { <<126>>, <<92>>, <<110>>, <<34>>, <<97>>, <<10>>, <<195, 169>>, <<114>>, <<116>> }    \* ~ \ n " a LF e-acute r t  (n, r, t: the letters of the escapes)
Strings == UNION {[1..n -> Alphabet] : n \in 0..MaxLen}
RECURSIVE Flat(_)
Flat(ss) == IF ss = <<>> THEN <<>> ELSE Head(ss) \o Flat(Tail(ss))
Ins(o, a, n) == [op |-> o, a |-> a, n |-> n]
ArgCode == << <<Ins(OP_LIT, 2, 0)>>, <<Ins(OP_LIT, 3, 0)>>, <<Ins(OP_LIT, 5, 0), Ins(OP_LIT, 4, 0), Ins(OP_ARRAY, 0, 0)>> >>
NastyArg == <<Ins(OP_LIT, 3, 0), Ins(OP_LIT, 2, 0), Ins(OP_OBJECT, 9, 0)>>          \* object(NAME = 7) with NAME = a \ n ~ " b
Prog(fmt, n, nst) ==
  [consts |-> << [k |-> "str", bytes |-> <<206,187,58>>], [k |-> "str", bytes |-> fmt], [k |-> "int", i |-> 7], [k |-> "null"],
                 [k |-> "bool", b |-> TRUE], [k |-> "int", i |-> 2],
                 [k |-> "method", name |-> 0, arity |-> 0, locals |-> 0, code |-> Flat([i \in 1..n |-> IF nst /\ i = 1 THEN NastyArg ELSE ArgCode[i]]) \o <<Ins(OP_PRINT, 1, n)>>],
                 [k |-> "str", bytes |-> <<97, 92, 110, 126, 34, 98>>], [k |-> "slot", name |-> 7], [k |-> "class", members |-> <<8>>] >>,
   globals |-> <<>>, entry |-> 6]
Init == f \in Strings /\ nargs \in 0..3 /\ nasty \in BOOLEAN /\ (nasty => nargs >= 1 /\ Len(f) <= 3)     \* (the nasty variant for formats of up to 3 symbols, in both tiers)
Next == FALSE /\ UNCHANGED <<f, nargs, nasty>>
Report == LET fmt == Flat(f) IN
          ~NoDanglingBackslash(fmt) \/
          PrintT(<<"REPLAY", ToJson([fmt |-> fmt, nargs |-> nargs, nasty |-> nasty, src |-> StringBodyOK(fmt) /\ ~nasty, bytes |-> Encode(Prog(fmt, nargs, nasty))])>>)
=============================================================================
