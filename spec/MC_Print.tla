------------------------------ MODULE MC_Print ------------------------------
(* C15 generator: every format string up to length MaxLen over the alphabet
   { ~  \  n  "  a  LF  e-acute } with 0..3 arguments.  For each one in the bytecode-level
   quantifier (no dangling backslash) a 3-instruction-style bytecode program is encoded with
   the TLA+ writer; for each one the lexer admits, the line is flagged `src` so the driver also
   builds the source program print("...", args).  Arguments: 7, null, [true, true].       *)
EXTENDS FMLBytecode, FMLSyntax, TLC, Json, IOUtils
VARIABLES f, nargs

MaxLen == IF "MAXLEN" \in DOMAIN IOEnv THEN CHOOSE k \in 0..6 : ToString(k) = IOEnv.MAXLEN ELSE 3
Alphabet == { <<126>>, <<92>>, <<110>>, <<34>>, <<97>>, <<10>>, <<195, 169>>, <<114>>, <<116>> }    \* ~ \ n " a LF e-acute r t  (n, r, t: the letters of the escapes)
Strings == UNION {[1..n -> Alphabet] : n \in 0..MaxLen}
RECURSIVE Flat(_)
Flat(ss) == IF ss = <<>> THEN <<>> ELSE Head(ss) \o Flat(Tail(ss))
Ins(o, a, n) == [op |-> o, a |-> a, n |-> n]
ArgCode == << <<Ins(OP_LIT, 2, 0)>>, <<Ins(OP_LIT, 3, 0)>>, <<Ins(OP_LIT, 5, 0), Ins(OP_LIT, 4, 0), Ins(OP_ARRAY, 0, 0)>> >>
Prog(fmt, n) ==
  [consts |-> << [k |-> "str", bytes |-> <<206,187,58>>], [k |-> "str", bytes |-> fmt], [k |-> "int", i |-> 7], [k |-> "null"],
                 [k |-> "bool", b |-> TRUE], [k |-> "int", i |-> 2],
                 [k |-> "method", name |-> 0, arity |-> 0, locals |-> 0, code |-> Flat([i \in 1..n |-> ArgCode[i]]) \o <<Ins(OP_PRINT, 1, n)>>] >>,
   globals |-> <<>>, entry |-> 6]
Init == f \in Strings /\ nargs \in 0..3
Next == FALSE /\ UNCHANGED <<f, nargs>>
Report == LET fmt == Flat(f) IN
          ~NoDanglingBackslash(fmt) \/
          PrintT(<<"REPLAY", ToJson([fmt |-> fmt, nargs |-> nargs, src |-> StringBodyOK(fmt), bytes |-> Encode(Prog(fmt, nargs))])>>)
=============================================================================
