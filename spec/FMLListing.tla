------------------------------ MODULE FMLListing ------------------------------
(* The disassembly listing (C17): an abstract listing is
     [consts : Seq(entry), entry, globals : Seq([idx, ref]), code : Seq([idx, mn, a, n])]
   with constant entries [idx, kind, ...]:  int i | bool b | null | str bytes | slot name |
   method name arity locals first last (last = -1 for an empty range) | class members.
   FromListing rebuilds the program the listing denotes; a faithful and complete listing
   denotes exactly the program an independent reader decodes from the file, and numbers its
   constants, globals and instructions 0, 1, 2, ... without gaps.
   Input (env LISTS): ndjson of [id, bytes, lexed, listing, nolisting (no listing was produced at all)]; the driver only splits the text
   into these tokens (lexed = FALSE when a line did not have the shape of any entry).        *)
EXTENDS FMLBytecode, TLC, Json, IOUtils
VARIABLES t, verdict
ASSUME TLCSet(1, ndJsonDeserialize(IOEnv.LISTS))
Rec == TLCGet(1)

Mnemonic == [ lit |-> 1, printf |-> 2, array |-> 3, object |-> 4, getslot |-> 5, setslot |-> 6, callslot |-> 7, call |-> 8,
              setlocal |-> 9, getlocal |-> 10, setglobal |-> 11, getglobal |-> 12, branch |-> 13, goto |-> 14, return |-> 15, drop |-> 16, label |-> 0 ]
InstrOf(c) == [op |-> Mnemonic[c.mn], a |-> c.a, n |-> c.n]
Numbered(s) == \A i \in 1..Len(s) : s[i].idx = i - 1
ConstOf(L, e) ==
  CASE e.kind = "int"  -> [k |-> "int", i |-> e.i]
    [] e.kind = "bool" -> [k |-> "bool", b |-> e.b]
    [] e.kind = "null" -> [k |-> "null"]
    [] e.kind = "str"  -> [k |-> "str", bytes |-> e.bytes]
    [] e.kind = "slot" -> [k |-> "slot", name |-> e.name]
    [] e.kind = "class" -> [k |-> "class", members |-> e.members]
    [] e.kind = "method" -> [k |-> "method", name |-> e.name, arity |-> e.arity, locals |-> e.locals,
                             code |-> IF e.last < e.first THEN <<>> ELSE [i \in 1..(e.last - e.first + 1) |-> InstrOf(L.code[e.first + i])]]
ListingOK(L) == /\ Numbered(L.consts) /\ Numbered(L.globals) /\ Numbered(L.code)
                /\ \A i \in 1..Len(L.code) : L.code[i].mn \in DOMAIN Mnemonic
                /\ \A i \in 1..Len(L.consts) : L.consts[i].kind = "method" =>
                      (L.consts[i].last < L.consts[i].first \/ (L.consts[i].first >= 0 /\ L.consts[i].last < Len(L.code)))
FromListing(L) == [consts |-> [i \in 1..Len(L.consts) |-> ConstOf(L, L.consts[i])],
                   globals |-> [i \in 1..Len(L.globals) |-> L.globals[i].ref], entry |-> L.entry]
\* every instruction of the listing's code section belongs to exactly one method range (completeness of the code section)
CodeCovered(L) == LET ms == SelectSeq(L.consts, LAMBDA e : e.kind = "method" /\ e.last >= e.first) IN
                  \A a \in 0..(Len(L.code) - 1) : Cardinality({i \in 1..Len(ms) : ms[i].first <= a /\ a <= ms[i].last}) = 1
\* scope of the property: no raw CR / LF in any string constant
NoRawBreaks(P) == \A i \in 1..Len(P.consts) : P.consts[i].k = "str" => \A j \in 1..Len(P.consts[i].bytes) : P.consts[i].bytes[j] \notin {10, 13}
Judge(r) ==
  LET P == Decode(r.bytes) IN
  IF ~P.ok THEN "undecodable-file"
  ELSE IF ~NoRawBreaks(P) THEN "out-of-scope"
  ELSE IF r.nolisting THEN (IF Load(P).loadable THEN "no-listing-for-a-file-the-loader-must-accept" ELSE "out-of-scope")   \* (the loader needs every label operand to be a string)
  ELSE IF ~r.lexed THEN "line-of-unknown-shape"
  ELSE IF ~ListingOK(r.listing) THEN "numbering-or-mnemonic"
  ELSE IF ~CodeCovered(r.listing) THEN "instruction-outside-every-method"
  ELSE IF FromListing(r.listing) # Abs(P) THEN "denotes-a-different-program"
  ELSE "ok"
Init == t \in 1..Len(Rec) /\ verdict = "pending"
Next == verdict = "pending" /\ verdict' = Judge(Rec[t]) /\ t' = t
Report == verdict = "pending" \/ PrintT(<<"VERDICT", ToJson([id |-> Rec[t].id, verdict |-> verdict])>>)
=============================================================================
