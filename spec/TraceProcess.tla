------------------------------ MODULE TraceProcess ------------------------------
(* Process-level outcomes of the command-line tools for inputs that have no AST (C10: invalid
   source must be rejected the way a failing program is): a rejection is a normal exit with
   non-zero status, nothing on stdout, a diagnostic on stderr.  Death by signal matches nothing.
   Input (env OBS): ndjson of [id, rule, exit, signaled, outlen, errempty, out, known, expok, expout]; one verdict each.
   rule = "reject": the input is invalid source; rule = "clean": a program too large to run through the
   reference semantics in TLC (call depth 10^5, 10^3-link structures): the termination rules are judged, and - where the
   program was written with its outcome known (known = TRUE: success or failure expok, stdout expout) - that outcome. *)
EXTENDS Integers, Sequences, TLC, Json, IOUtils
VARIABLES t
ASSUME TLCSet(1, ndJsonDeserialize(IOEnv.OBS))
Obs == TLCGet(1)
CleanRejection(o) == ~o.signaled /\ o.exit # 0 /\ o.exit < 128 /\ o.outlen = 0 /\ ~o.errempty
\* any clean termination: normal exit, and exit status 0 exactly when nothing was written to stderr
CleanTermination(o) == ~o.signaled /\ o.exit < 128 /\ ((o.exit = 0) <=> o.errempty)
Init == t \in 1..Len(Obs)
Next == FALSE /\ UNCHANGED t
Prescribed(o) == o.known => (((o.exit = 0) = o.expok) /\ o.out = o.expout)
Report == PrintT(<<"VERDICT", ToJson([id |-> Obs[t].id, ok |-> IF Obs[t].rule = "reject" THEN CleanRejection(Obs[t]) ELSE CleanTermination(Obs[t]) /\ Prescribed(Obs[t])])>>)
=============================================================================
