------------------------------ MODULE MC_Syntax ------------------------------
(* C07 generator (spec -> impl): token sequences with the tree the README prescribes.
     triple   a o1 b o2 c o3 d               all 13^3 operator triples, tree by precedence climbing
     form     x o1 y o2 z with one operand replaced by a literal, -1, (x), x.a, x[1], f(1), x.m(2), begin x end
     if       all if/then/else texts to depth 3 without parentheses, tree by "else binds to the nearest if"
     chain    base followed by up to 4 postfix operators (.f, [i], .m(j), names by position), read, assigned to, or ended by an operator call .+(9); tree by left nesting
   Each behaviour is one text; the driver joins the tokens, the real parser parses, TraceParse compares. *)
EXTENDS FMLSyntax, Json, IOUtils
VARIABLES c

Ops == <<"|", "&", "==", "!=", "<", ">", "<=", ">=", "+", "-", "*", "/", "%">>
OpSet == {Ops[i] : i \in 1..13}
Forms == {"int", "neg", "paren", "field", "index", "call", "method", "block", "null"}
FormTree(f) == CASE f = "int" -> IntL(7) [] f = "neg" -> IntL(-1) [] f = "paren" -> Var("p") [] f = "field" -> GetF(Var("p"), "a")
                 [] f = "index" -> Idx(Var("p"), IntL(1)) [] f = "call" -> CallN("f", <<IntL(1)>>) [] f = "method" -> MCallN(Var("p"), "m", <<IntL(2)>>)
                 [] f = "block" -> [t |-> "Block", es |-> <<Var("p")>>] [] f = "null" -> NullL
FormToks(f) == CASE f = "int" -> <<"7">> [] f = "neg" -> <<"-1">> [] f = "paren" -> <<"(", "p", ")">> [] f = "field" -> <<"p", ".", "a">>
                 [] f = "index" -> <<"p", "[", "1", "]">> [] f = "call" -> <<"f", "(", "1", ")">> [] f = "method" -> <<"p", ".", "m", "(", "2", ")">>
                 [] f = "block" -> <<"begin", "p", "end">> [] f = "null" -> <<"null">>
Triples == {<<"triple", o1, o2, o3>> : o1 \in OpSet, o2 \in OpSet, o3 \in OpSet}
FormCases == {<<"form", o1, o2, f, p>> : o1 \in OpSet, o2 \in OpSet, f \in Forms, p \in {"1", "2", "3"}}
IfCases == {<<"if">> \o x : x \in IfTexts(3)}
Postfix == {"field", "index", "method"}
Chains == UNION {{<<"chain", b, asg>> \o ps : ps \in [1..n -> Postfix]} : n \in 1..4, b \in {"var", "call", "paren", "block"}, asg \in {"read", "assign", "opcall", "opcall0", "opcall2"}}
Cases == Triples \cup FormCases \cup IfCases \cup Chains

Expected(x) ==
  CASE x[1] = "triple" -> [ok |-> TRUE, toks |-> <<"a", x[2], "b", x[3], "c", x[4], "d">>,
                           tree |-> ParseInfix(<<Var("a"), Var("b"), Var("c"), Var("d")>>, <<x[2], x[3], x[4]>>)]
    [] x[1] = "form" -> LET opnd(i, nm) == IF x[5] = i THEN [tr |-> FormTree(x[4]), tk |-> FormToks(x[4])] ELSE [tr |-> Var(nm), tk |-> <<nm>>]
                            A == opnd("1", "x")  B == opnd("2", "y")  C == opnd("3", "z") IN
                        [ok |-> TRUE, toks |-> A.tk \o <<x[2]>> \o B.tk \o <<x[3]>> \o C.tk, tree |-> ParseInfix(<<A.tr, B.tr, C.tr>>, <<x[2], x[3]>>)]
    [] x[1] = "if" -> LET r == ParseIf(Tail(x)) IN [ok |-> r.rest = <<>>, toks |-> Tail(x), tree |-> r.tree]
    [] x[1] = "chain" -> LET ps == SubSeq(x, 4, Len(x))
                             tr == ChainTree(BaseTree(x[2]), ps)
                             tk == BaseToks(x[2]) \o ChainToks(ps) IN
                         IF x[3] = "read" THEN [ok |-> TRUE, toks |-> tk, tree |-> tr]
                         ELSE IF x[3] = "opcall" THEN [ok |-> TRUE, toks |-> tk \o <<".", "+", "(", "9", ")">>, tree |-> MCallN(tr, "+", <<IntL(9)>>)]   \* operator called as a method at the end of the chain
                         ELSE IF x[3] = "opcall0" THEN [ok |-> TRUE, toks |-> tk \o <<".", "<=", "(", ")">>, tree |-> MCallN(tr, "<=", <<>>)]              \* ... with no argument
                         ELSE IF x[3] = "opcall2" THEN [ok |-> TRUE, toks |-> tk \o <<".", "*", "(", "9", ",", "q", ".", "r", ")">>, tree |-> MCallN(tr, "*", <<IntL(9), GetF(Var("q"), "r")>>)]   \* ... with two
                         ELSE \* assignment through the chain: only a field or an element can be assigned to
                              IF ps[Len(ps)] = "field" THEN [ok |-> TRUE, toks |-> tk \o <<"<-", "5">>, tree |-> [t |-> "SetField", o |-> tr.o, n |-> tr.n, e |-> IntL(5)]]
                              ELSE IF ps[Len(ps)] = "index" THEN [ok |-> TRUE, toks |-> tk \o <<"<-", "5">>, tree |-> [t |-> "SetIndex", o |-> tr.o, i |-> tr.i, e |-> IntL(5)]]
                              ELSE [ok |-> FALSE, toks |-> <<>>, tree |-> NullL]
Init == c \in Cases
Next == FALSE /\ UNCHANGED c
Report == LET e == Expected(c) IN ~e.ok \/ PrintT(<<"REPLAY", ToJson([kind |-> c[1], toks |-> e.toks, ast |-> TopN(<<e.tree>>)])>>)
=============================================================================
