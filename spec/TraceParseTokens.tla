---------------------------- MODULE TraceParseTokens ----------------------------
(* impl -> spec for the parser on ARBITRARY token sequences (C07, C10): the TLA+ grammar
   FMLParser decides whether the sequence is a program and which tree it denotes; the real
   parser (fed the tokens joined by single spaces) must accept exactly the programs and return
   exactly that tree.  Input (env TOKS): ndjson of [id, toks, status, parsed].              *)
EXTENDS FMLParser, Json, IOUtils
VARIABLES t, verdict
ASSUME TLCSet(1, ndJsonDeserialize(IOEnv.TOKS))
Rec == TLCGet(1)
Judge(r) == LET e == ParseTokens(r.toks) IN
            IF e.ok THEN (IF r.status # "ok" THEN "rejected-but-is-a-program" ELSE IF r.parsed # e.tree THEN "different-tree" ELSE "accepted")
            ELSE (IF r.status = "ok" THEN "accepted-but-is-not-a-program" ELSE "rejected")
Init == t \in 1..Len(Rec) /\ verdict = "pending"
Next == verdict = "pending" /\ verdict' = Judge(Rec[t]) /\ t' = t
Report == verdict = "pending" \/ PrintT(<<"VERDICT", ToJson([id |-> Rec[t].id, verdict |-> verdict])>>)
=============================================================================
