------------------------------ MODULE MC_Builtins ------------------------------
(* Bounded-exhaustive built-in method tables as bytecode programs (C05, C09, C14):
   receiver kind x method name x argument kinds x argument count.  Each behaviour is a
   program  <push receiver> <push arguments> call slot NAME n ; printf "~\n" 1  encoded
   with the TLA+ writer; the real VM executes it under the recorder and TraceVM validates
   every instruction against FMLVM (which takes its results from FMLBuiltins).
   Receivers: null, ints, bools, an array, objects without the method whose parent is each of
   those (delegation to built-ins at the end of a chain, depth 1 and 2), an object that
   defines the method itself (overriding), an object whose parent defines it.             *)
EXTENDS FMLBytecode, FMLBuiltins, TLC, Json, IOUtils
VARIABLES recv, name, args

Stride == IF "STRIDE" \in DOMAIN IOEnv THEN CHOOSE k \in 1..64 : ToString(k) = IOEnv.STRIDE ELSE 1
Ins(o, a, n) == [op |-> o, a |-> a, n |-> n]
Names == << N_add, N_sub, N_mul, N_div, N_mod, N_le, N_ge, N_lt, N_gt, N_eq, N_ne, N_and, N_or,
            F_add, F_sub, F_mul, F_div, F_mod, F_le, F_ge, F_lt, F_gt, F_eq, F_neq, F_and, F_or,
            N_get, N_set, <<102,111,111>>, <<>> >>
\* fixed literal pool: index of each literal constant
\* 0 "λ:"  1 NAME  2 "~\n"  3 null  4 true  5 false  6: 0  7: 2  8: -1  9: MAXI  10: MINI  11: 7  12: 42
\* 13 class{}  14 method NAME/2 -> 42   15 class{#14}  16 method NAME/1 -> 42  17 class{#16}  18 entry
Lit == [null |-> 3, true |-> 4, false |-> 5, i0 |-> 6, i2 |-> 7, im1 |-> 8, imax |-> 9, imin |-> 10, i7 |-> 11]
\* a value descriptor is a sequence of strings: <<"i2">>, <<"arr">>, <<"ext", "ext", "i2">> = object extending an object extending 2
PrimNames == {"null", "true", "false", "i0", "i2", "im1", "imax", "imin"}
RECURSIVE CodeFor(_)
CodeFor(d) ==
  IF Len(d) > 1 THEN CodeFor(Tail(d)) \o <<Ins(OP_OBJECT, 13, 0)>>                                  \* object without methods extending Tail(d)
  ELSE IF d[1] \in PrimNames THEN <<Ins(OP_LIT, Lit[d[1]], 0)>>
  ELSE CASE d[1] = "arr"     -> <<Ins(OP_LIT, 7, 0), Ins(OP_LIT, 11, 0), Ins(OP_ARRAY, 0, 0)>>       \* [7, 7]
         [] d[1] = "objdef2" -> <<Ins(OP_LIT, 3, 0), Ins(OP_OBJECT, 15, 0)>>                          \* defines NAME with 1 parameter (+ this)
         [] d[1] = "objdef1" -> <<Ins(OP_LIT, 3, 0), Ins(OP_OBJECT, 17, 0)>>                          \* defines NAME with 0 parameters (+ this)
Prims == {<<n>> : n \in PrimNames}
Ext(p) == <<"ext">> \o p
Receivers == Prims \cup {<<"arr">>, <<"objdef2">>, <<"objdef1">>} \cup {Ext(<<p>>) : p \in {"null", "i2", "im1", "true", "arr", "objdef2"}}
             \cup {Ext(Ext(<<p>>)) : p \in {"i2", "arr", "false"}}
ArgKinds == {<<"null">>, <<"true">>, <<"i0">>, <<"i2">>, <<"im1">>, <<"arr">>, Ext(<<"null">>), Ext(<<"i2">>), Ext(<<"true">>)}     \* (an object that extends a primitive is an object, not that primitive)
ArgSeqs == {<<>>} \cup {<<a>> : a \in ArgKinds \cup {<<"false">>, <<"imax">>, <<"imin">>}} \cup {<<a, b>> : a \in ArgKinds, b \in {<<"i2">>, <<"null">>, <<"arr">>}}
           \cup {<< <<"i0">>, <<"i2">>, <<"i2">> >>, << <<"null">>, <<"null">>, <<"null">> >>}
Prog(r, nm, as) ==
  LET RECURSIVE Cat(_)
      Cat(ss) == IF ss = <<>> THEN <<>> ELSE Head(ss) \o Cat(Tail(ss))
      body == CodeFor(r) \o Cat([i \in 1..Len(as) |-> CodeFor(as[i])]) \o <<Ins(OP_CALLM, 1, Len(as) + 1), Ins(OP_PRINT, 2, 1)>>
      ret42 == <<Ins(OP_LIT, 12, 0), Ins(OP_RETURN, 0, 0)>> IN
  [consts |-> << [k |-> "str", bytes |-> <<206,187,58>>], [k |-> "str", bytes |-> nm], [k |-> "str", bytes |-> <<126, 92, 110>>],
                 [k |-> "null"], [k |-> "bool", b |-> TRUE], [k |-> "bool", b |-> FALSE],
                 [k |-> "int", i |-> 0], [k |-> "int", i |-> 2], [k |-> "int", i |-> -1], [k |-> "int", i |-> MAXI], [k |-> "int", i |-> MINI],
                 [k |-> "int", i |-> 7], [k |-> "int", i |-> 42],
                 [k |-> "class", members |-> <<>>],
                 [k |-> "method", name |-> 1, arity |-> 2, locals |-> 0, code |-> ret42], [k |-> "class", members |-> <<14>>],
                 [k |-> "method", name |-> 1, arity |-> 1, locals |-> 0, code |-> ret42], [k |-> "class", members |-> <<16>>],
                 [k |-> "method", name |-> 0, arity |-> 0, locals |-> 0, code |-> body] >>,
   globals |-> <<>>, entry |-> 18]
Describe(d) == d
Init == recv \in Receivers /\ name \in 1..Len(Names) /\ args \in ArgSeqs
Next == FALSE /\ UNCHANGED <<recv, name, args>>
\* stride: a deterministic 1/Stride sample of the product for the quick tier (hash of the key)
Key == (name * 31 + Len(args) * 7 + Cardinality({a \in ArgKinds : \E i \in 1..Len(args) : args[i] = a}) + Len(CodeFor(recv)) * 3)
Report == (Key % Stride # 0) \/
          PrintT(<<"REPLAY", ToJson([recv |-> Describe(recv), name |-> Names[name], args |-> [i \in 1..Len(args) |-> Describe(args[i])],
                                     bytes |-> Encode(Prog(recv, Names[name], args))])>>)
=============================================================================
