------------------------------ MODULE FMLSyntax ------------------------------
(* Concrete-syntax facts of FML used by generators and judges (C07, C15, C06):
   the string-literal token, the operator precedence table and left-associative
   precedence climbing (the README table), the range of the parser.                *)
EXTENDS Integers, Sequences, FiniteSets

\* STRING_LITERAL body: any character except an unescaped backslash or double quote; escapes \~ \n \t \r \\ \"
RECURSIVE StringBodyOKFrom(_,_)
StringBodyOKFrom(s, i) ==
  IF i > Len(s) THEN TRUE
  ELSE IF s[i] = 34 THEN FALSE
  ELSE IF s[i] = 92 THEN i + 1 <= Len(s) /\ s[i+1] \in {126, 110, 116, 114, 92, 34} /\ StringBodyOKFrom(s, i + 2)
  ELSE StringBodyOKFrom(s, i + 1)
StringBodyOK(s) == StringBodyOKFrom(s, 1)
\* at bytecode level a format string is in the quantifier of C15 iff it does not end in an unescaped backslash
RECURSIVE EndsEscaped(_,_,_)
EndsEscaped(s, i, esc) == IF i > Len(s) THEN esc ELSE EndsEscaped(s, i + 1, IF esc THEN FALSE ELSE s[i] = 92)
NoDanglingBackslash(s) == ~EndsEscaped(s, 1, FALSE)

\* operator precedence (README table; the comparison level also holds < > <= >=), all left-associative
Level == [op \in {"|", "&", "==", "!=", "<", ">", "<=", ">=", "+", "-", "*", "/", "%"} |->
            CASE op = "|" -> 1 [] op = "&" -> 2 [] op \in {"==", "!=", "<", ">", "<=", ">="} -> 3 [] op \in {"+", "-"} -> 4 [] OTHER -> 5]
Operators == DOMAIN Level
MkOp(op, l, r) == [t |-> "MCall", o |-> l, n |-> op, args |-> <<r>>]
\* precedence climbing over  x1 o1 x2 o2 ... xn : the tree the README prescribes
\* Climb(xs, os, minlevel) parses as much as binds at least as tightly as minlevel; returns [tree, rest operands, rest operators]
RECURSIVE Climb(_,_,_), ClimbLoop(_,_,_,_)
ClimbLoop(lhs, xs, os, minl) ==
  IF os = <<>> \/ Level[Head(os)] < minl THEN [tree |-> lhs, xs |-> xs, os |-> os]
  ELSE LET op == Head(os)
           r == Climb(xs, Tail(os), Level[op] + 1) IN            \* right operand binds tighter: left associativity
       ClimbLoop(MkOp(op, lhs, r.tree), r.xs, r.os, minl)
Climb(xs, os, minl) == ClimbLoop(Head(xs), Tail(xs), os, minl)
ParseInfix(xs, os) == Climb(xs, os, 1).tree
=============================================================================
