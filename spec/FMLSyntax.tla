------------------------------ MODULE FMLSyntax ------------------------------
(* Concrete-syntax facts of FML used by generators and judges (C07, C15, C06):
   the string-literal token, the operator precedence table and left-associative
   precedence climbing (the README table), the range of the parser.                *)
EXTENDS Integers, Sequences, FiniteSets, TLC

\* STRING_LITERAL body: any character except an unescaped backslash or double quote; escapes \~ \n \t \r \\ \"
RECURSIVE StringBodyOKFrom(_,_)
StringBodyOKFrom(s, i) ==
  IF i > Len(s) THEN TRUE
  ELSE IF s[i] = 34 THEN FALSE
  ELSE IF s[i] = 92 THEN i + 1 <= Len(s) /\ s[i+1] \in {126, 110, 116, 114, 92, 34} /\ StringBodyOKFrom(s, i + 2)
  ELSE StringBodyOKFrom(s, i + 1)
StringBodyOK(s) == StringBodyOKFrom(s, 1)
\* at bytecode level a format string is in the quantifier of C15 iff it does not end in an unescaped backslash
RECURSIVE EndsEscaped(_,_,_)
EndsEscaped(s, i, esc) == IF i > Len(s) THEN esc ELSE EndsEscaped(s, i + 1, IF esc THEN FALSE ELSE s[i] = 92)
NoDanglingBackslash(s) == ~EndsEscaped(s, 1, FALSE)

\* operator precedence (README table; the comparison level also holds < > <= >=), all left-associative
Level == [op \in {"|", "&", "==", "!=", "<", ">", "<=", ">=", "+", "-", "*", "/", "%"} |->
            CASE op = "|" -> 1 [] op = "&" -> 2 [] op \in {"==", "!=", "<", ">", "<=", ">="} -> 3 [] op \in {"+", "-"} -> 4 [] OTHER -> 5]
Operators == DOMAIN Level
MkOp(op, l, r) == [t |-> "MCall", o |-> l, n |-> op, args |-> <<r>>]
\* precedence climbing over  x1 o1 x2 o2 ... xn : the tree the README prescribes
\* Climb(xs, os, minlevel) parses as much as binds at least as tightly as minlevel; returns [tree, rest operands, rest operators]
RECURSIVE Climb(_,_,_), ClimbLoop(_,_,_,_)
ClimbLoop(lhs, xs, os, minl) ==
  IF os = <<>> \/ Level[Head(os)] < minl THEN [tree |-> lhs, xs |-> xs, os |-> os]
  ELSE LET op == Head(os)
           r == Climb(xs, Tail(os), Level[op] + 1) IN            \* right operand binds tighter: left associativity
       ClimbLoop(MkOp(op, lhs, r.tree), r.xs, r.os, minl)
Climb(xs, os, minl) == ClimbLoop(Head(xs), Tail(xs), os, minl)
ParseInfix(xs, os) == Climb(xs, os, 1).tree

------------------------------------------------------------------------------
\* AST constructors (normalized form, without the position numbers)
Var(n) == [t |-> "Var", n |-> n]
IntL(v) == [t |-> "Int", v |-> v]
NullL == [t |-> "Null"]
GetF(o, n) == [t |-> "GetField", o |-> o, n |-> n]
Idx(o, i) == [t |-> "Index", o |-> o, i |-> i]
MCallN(o, n, args) == [t |-> "MCall", o |-> o, n |-> n, args |-> args]
CallN(n, args) == [t |-> "Call", n |-> n, args |-> args]
IfN(c, a, b) == [t |-> "If", c |-> c, a |-> a, b |-> b]
TopN(es) == [t |-> "Top", es |-> es]

\* dangling else: `else` binds to the nearest `if`.  Recursive descent over tokens "if" "c" "then" "else" "a":
\*   S ::= "a" | "if" "c" "then" S [ "else" S ]        (greedy else)
\* returns [tree, rest]
RECURSIVE ParseIf(_)
ParseIf(ts) ==
  IF Head(ts) = "a" THEN [tree |-> Var("a"), rest |-> Tail(ts)]
  ELSE LET th == ParseIf(SubSeq(ts, 4, Len(ts))) IN          \* after  if c then
       IF th.rest # <<>> /\ Head(th.rest) = "else"
       THEN LET el == ParseIf(Tail(th.rest)) IN [tree |-> IfN(Var("c"), th.tree, el.tree), rest |-> el.rest]
       ELSE [tree |-> IfN(Var("c"), th.tree, NullL), rest |-> th.rest]
RECURSIVE IfTexts(_)
IfTexts(d) == IF d = 0 THEN {<<"a">>}
              ELSE IfTexts(d - 1) \cup {<<"if", "c", "then">> \o x : x \in IfTexts(d - 1)}
                   \cup {<<"if", "c", "then">> \o x \o <<"else">> \o y : x \in IfTexts(d - 1), y \in IfTexts(d - 1)}

\* postfix chains nest left to right:  base (.f | [i] | .m(j))*  ; the k-th postfix operator uses its own names so that
\* a reordered chain is a different tree
FName(k) == CASE k = 1 -> "a" [] k = 2 -> "b" [] k = 3 -> "c" [] OTHER -> "d"
MName(k) == CASE k = 1 -> "m" [] k = 2 -> "n" [] k = 3 -> "o" [] OTHER -> "p"
KTok(k) == CASE k = 1 -> "1" [] k = 2 -> "2" [] k = 3 -> "3" [] OTHER -> "4"
ApplyPostfix(e, p, k) == CASE p = "field" -> GetF(e, FName(k)) [] p = "index" -> Idx(e, IntL(k)) [] p = "method" -> MCallN(e, MName(k), <<IntL(k)>>)
PostfixToks(p, k) == CASE p = "field" -> <<".", FName(k)>> [] p = "index" -> <<"[", KTok(k), "]">> [] p = "method" -> <<".", MName(k), "(", KTok(k), ")">>
RECURSIVE ChainTreeK(_,_,_), ChainToksK(_,_)
ChainTreeK(e, ps, k) == IF ps = <<>> THEN e ELSE ChainTreeK(ApplyPostfix(e, Head(ps), k), Tail(ps), k + 1)
ChainToksK(ps, k) == IF ps = <<>> THEN <<>> ELSE PostfixToks(Head(ps), k) \o ChainToksK(Tail(ps), k + 1)
ChainTree(e, ps) == ChainTreeK(e, ps, 1)
ChainToks(ps) == ChainToksK(ps, 1)
BaseTree(b) == CASE b = "var" -> Var("x") [] b = "call" -> CallN("f", <<IntL(1)>>) [] b = "paren" -> Var("x") [] b = "block" -> [t |-> "Block", es |-> <<Var("x")>>]
BaseToks(b) == CASE b = "var" -> <<"x">> [] b = "call" -> <<"f", "(", "1", ")">> [] b = "paren" -> <<"(", "x", ")">> [] b = "block" -> <<"begin", "x", "end">>

\* the range of the parser (which ASTs TopLevelParser can produce), as far as the generators need it
RECURSIVE InRange(_,_)
InRange(e, top) ==
  LET all(es) == \A i \in 1..Len(es) : InRange(es[i], FALSE) IN
  CASE e.t = "Int" -> e.v >= -2147483647 - 1 /\ e.v <= 2147483647
    [] e.t \in {"Bool", "Null", "Var"} -> TRUE
    [] e.t \in {"Let", "Assign"} -> InRange(e.e, FALSE)
    [] e.t = "Block" -> e.es # <<>> /\ all(e.es)
    [] e.t = "Top" -> top /\ e.es # <<>> /\ \A i \in 1..Len(e.es) : InRange(e.es[i], e.es[i].t = "Fun")
    [] e.t = "Fun" -> top /\ InRange(e.body, FALSE)            \* only at top level (object members are handled under Object)
    [] e.t = "If" -> InRange(e.c, FALSE) /\ InRange(e.a, FALSE) /\ InRange(e.b, FALSE)
    [] e.t = "While" -> InRange(e.c, FALSE) /\ InRange(e.b, FALSE)
    [] e.t = "Call" -> all(e.args)
    [] e.t = "MCall" -> InRange(e.o, FALSE) /\ all(e.args)
    [] e.t = "Print" -> StringBodyOK(e.f) /\ all(e.args)
    [] e.t = "GetField" -> InRange(e.o, FALSE)
    [] e.t = "SetField" -> InRange(e.o, FALSE) /\ InRange(e.e, FALSE)
    [] e.t = "Index" -> InRange(e.o, FALSE) /\ InRange(e.i, FALSE)
    [] e.t = "SetIndex" -> InRange(e.o, FALSE) /\ InRange(e.i, FALSE) /\ InRange(e.e, FALSE)
    [] e.t = "Array" -> InRange(e.size, FALSE) /\ InRange(e.init, FALSE)
    [] e.t = "Object" -> InRange(e.parent, FALSE) /\ \A i \in 1..Len(e.members) :
                           LET m == e.members[i] IN (m.t = "Let" /\ InRange(m.e, FALSE)) \/ (m.t = "Fun" /\ InRange(m.body, FALSE))
    [] OTHER -> FALSE
InParserRange(ast) == ast.t = "Top" /\ InRange(ast, TRUE)
=============================================================================
