------------------------------ MODULE MC_Format ------------------------------
(* Design-level check of the format specification and generator for spec -> impl replay
   (C03, C04): TLC enumerates abstract programs covering every constant tag, every opcode,
   operands at the width boundaries (255/256, 65535), strings whose byte and character
   counts differ, empty and long sequences; checks on the specification itself that
   Decode(Encode(Q)) = Q and Encode(Decode(b)) = b; and prints each Q with its bytes so that
   the real reader / writer can be run on it.  FMT_DEPTH = length of enumerated method bodies. *)
EXTENDS FMLBytecode, TLC, Json, IOUtils
VARIABLES Q

Depth == IF "FMT_DEPTH" \in DOMAIN IOEnv THEN (IF IOEnv.FMT_DEPTH = "2" THEN 2 ELSE 1) ELSE 1
AVals == {0, 1, 255, 256, 65535}
NVals == {0, 1, 255}
Ins(o, a, n) == [op |-> o, a |-> a, n |-> n]
InstrCands == {Ins(o, 0, 0) : o \in {3, 15, 16}}
        \cup {Ins(0, a, 0) : a \in {0, 1, 2}}                      \* label operands must be string constants for the loader
        \cup {Ins(o, a, 0) : o \in {1, 4, 5, 6, 9, 10, 11, 12, 13, 14}, a \in AVals}
        \cup {Ins(o, a, n) : o \in {2, 7, 8}, a \in AVals, n \in NVals}
Rep(x, n) == [i \in 1..n |-> x]
\* n copies of the byte sequence u (a multi-byte character)
RepU(u, n) == [i \in 1..(n * Len(u)) |-> u[((i - 1) % Len(u)) + 1]]
StrCands == { <<>>, <<97>>, <<195,169>>, <<228,184,150>>, <<240,159,152,128>>, <<0>>, <<10, 13, 9>>, <<34, 92, 126>>,
              <<206,187,58>>, Rep(120, 255), Rep(120, 256), Rep(97, 127) \o <<195,169>> \o Rep(98, 128), <<239,187,191,97>> }
IntCands == {0, 1, -1, 127, 128, 255, 256, -256, 65535, 65536, -65536, 16777215, 16777216, -16777216, MAXI, MINI, -2147483647, 305419896}
ClassCands == { <<>>, <<0>>, <<7, 65535>>, Rep(3, 255), Rep(65535, 256) }
CodeSeqs == UNION {[1..n -> InstrCands] : n \in 0..Depth}
LongCode == [i \in 1..300 |-> IF i % 2 = 0 THEN Ins(16, 0, 0) ELSE Ins(1, i, 0)]
MethCands == {[k |-> "method", name |-> nm, arity |-> ar, locals |-> lo, code |-> <<Ins(15,0,0)>>] :
                 nm \in {0, 65535}, ar \in {0, 1, 255}, lo \in {0, 1, 255, 256, 65535}}
        \cup {[k |-> "method", name |-> 0, arity |-> 0, locals |-> 0, code |-> c] : c \in CodeSeqs \cup {LongCode}}
ConstCands == {[k |-> "int", i |-> i] : i \in IntCands} \cup {[k |-> "null"]} \cup {[k |-> "bool", b |-> b] : b \in BOOLEAN}
        \cup {[k |-> "str", bytes |-> s] : s \in StrCands} \cup {[k |-> "slot", name |-> a] : a \in AVals}
        \cup {[k |-> "class", members |-> c] : c \in ClassCands} \cup MethCands
Base == << [k |-> "str", bytes |-> <<206,187,58>>], [k |-> "str", bytes |-> <<>>], [k |-> "str", bytes |-> <<195,169,228,184,150>>] >>
BaseEntry == [k |-> "method", name |-> 0, arity |-> 0, locals |-> 0, code |-> <<>>]
GlobCands == { <<>>, <<0>>, <<3, 65535>>, Rep(1, 255), Rep(2, 256) }
Programs == {[consts |-> Base \o <<c>> \o <<BaseEntry>>, globals |-> <<>>, entry |-> 4] : c \in ConstCands}
       \cup {[consts |-> Base \o <<BaseEntry>>, globals |-> g, entry |-> e] : g \in GlobCands, e \in AVals}
       \cup {[consts |-> <<>>, globals |-> <<>>, entry |-> 0]}
       \cup {[consts |-> Base \o <<c1, c2>>, globals |-> <<3, 4>>, entry |-> 4] : c1 \in {[k |-> "null"], [k |-> "class", members |-> <<4>>]}, c2 \in MethCands}

RoundTrip(q) == LET b == Encode(q)  p == Decode(b) IN
                p.ok /\ p.rest = 0 /\ Abs(p) = q /\ Encode(Abs(p)) = b
                /\ ~Decode(SubSeq(b, 1, Len(b) - 1)).ok                    \* a truncated file is not in the layout
                /\ Decode(b \o <<0>>).rest = 1                              \* trailing bytes are visible
Init == Q \in Programs
Next == FALSE /\ Q' = Q
Report == /\ RoundTrip(Q) \/ PrintT(<<"SPECBAD", ToJson([q |-> Q])>>)
          /\ PrintT(<<"REPLAY", ToJson([bytes |-> Encode(Q)])>>)
=============================================================================
