INIT Init
NEXT Next
INVARIANT Final
CHECK_DEADLOCK FALSE
