---------------------------- MODULE TraceBytecode ----------------------------
(* impl -> spec for the binary format (C03, C04) and the code layout part of C02.
   Input (env RECS): ndjson, one record per program:
     [id, bytes, hasprog, prog, load, prog2, bytes2, hasdirect, out, ok, outd, okd]
   bytes  = what Program::serialize wrote for the compiled (or loaded) program
   prog   = projection of the in-memory program that was serialized (hasprog)
   prog2  = projection of the program Program::from_bytes built from `bytes`
   bytes2 = serialization of that loaded program
   out/ok = execution of the loaded program, outd/okd = execution without the byte round trip.
   Each record is judged on its own: one VERDICT line per record with the list of failed clauses. *)
EXTENDS FMLBytecode, TLC, Json, IOUtils
VARIABLES t, failed

ASSUME TLCSet(1, ndJsonDeserialize(IOEnv.RECS))
Rec == TLCGet(1)

CAbs(c) == IF c.k = "method" THEN [k |-> "method", name |-> c.name, arity |-> c.arity, locals |-> c.locals, code |-> c.code] ELSE c
AbsOf(p) == [consts |-> [i \in 1..Len(p.consts) |-> CAbs(p.consts[i])], globals |-> p.globals, entry |-> p.entry]
\* in-memory code ranges [start, start+len) of the method constants partition the code vector, in pool order
RangesPartition(p) ==
  LET ms == SelectSeq(p.consts, LAMBDA c : c.k = "method")
      RECURSIVE Chk(_,_)
      Chk(i, at) == IF i > Len(ms) THEN at = p.codelen
                    ELSE ms[i].start = at /\ ms[i].len = Len(ms[i].code) /\ Chk(i + 1, at + ms[i].len)
  IN Chk(1, 0)
\* ranges are disjoint and cover the code vector (any order): every instruction belongs to exactly one method
RangesCover(p) ==
  LET ms == SelectSeq(p.consts, LAMBDA c : c.k = "method")
      owners(a) == {i \in 1..Len(ms) : ms[i].start <= a /\ a < ms[i].start + ms[i].len} IN
  \A a \in 0..(p.codelen - 1) : Cardinality(owners(a)) = 1

Clauses(r) ==
  LET P == Decode(r.bytes) IN
  [ decodable     |-> P.ok,                                              \* C04: the file is in the documented layout
    no_trailing   |-> P.ok => P.rest = 0,                                \* C04: no trailing bytes
    denotes_prog  |-> (P.ok /\ r.hasprog) => Abs(P) = AbsOf(r.prog),     \* C04: the file denotes the program that was written
    writer_layout |-> r.hasprog => Encode(AbsOf(r.prog)) = r.bytes,      \* C04: byte-for-byte what the documented layout prescribes
    owns_code     |-> r.hasprog => RangesCover(r.prog),                  \* C02: every instruction belongs to exactly one method
    loads         |-> P.ok => r.load = "ok",                             \* C04: any file in the layout is loaded
    loaded_same   |-> (P.ok /\ r.load = "ok") => AbsOf(r.prog2) = Abs(P), \* C03/C04: ... as the program it denotes
    loaded_layout |-> r.load = "ok" => RangesPartition(r.prog2),         \* loader re-appends method code in pool order
    loaded_labels |-> (P.ok /\ r.load = "ok" /\ "labels" \in DOMAIN r.prog2 /\ NC(P) <= 4000) =>   \* (Load is quadratic in the pool size: the 65 535-constant pool is judged by the other clauses)   \* C03: the label table the loader derives (it is not in the file): every string constant
                        LET I == Load(P) IN                                \* names the address of the last label instruction carrying it, or nothing
                        I.loadable /\ \A k \in 1..Len(r.prog2.labels) :
                           LET e == r.prog2.labels[k]  nm == StrOf(P, e[1]) IN e[2] = (IF nm \in DOMAIN I.labels THEN I.labels[nm] ELSE -1),
    resave_same   |-> r.load = "ok" => r.bytes2 = r.bytes,               \* C03: writing the loaded program again is byte-identical
    same_behaviour |-> r.hasdirect => (r.out = r.outd /\ r.ok = r.okd)   \* C03: same behaviour with and without the round trip
  ]
Failed(r) == LET c == Clauses(r) IN {n \in DOMAIN c : ~c[n]}
RECURSIVE SetToSeq(_)
SetToSeq(S) == IF S = {} THEN <<>> ELSE LET x == CHOOSE y \in S : TRUE IN <<x>> \o SetToSeq(S \ {x})

\* one initial state per record; the judgement is a step so that TLC's workers share the batch
Init == t \in 1..Len(Rec) /\ failed = <<"pending">>
Next == failed = <<"pending">> /\ failed' = SetToSeq(Failed(Rec[t])) /\ t' = t
Report == failed = <<"pending">> \/ PrintT(<<"VERDICT", ToJson([id |-> Rec[t].id, failed |-> failed])>>)
=============================================================================
