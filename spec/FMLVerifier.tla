---------------------------- MODULE FMLVerifier ----------------------------
(* Operand-stack discipline of compiled code (C02, second sentence) as a transition system:
   a state is a program point (method m, pc) of program t together with the operand-stack
   depth d relative to the method's entry; Next follows every control-flow edge applying the
   instruction's stack effect.  TLC visits every path-reachable (pc, d).  Checked in every
   state: the instruction finds the operands it pops (never negative), the depth equals the
   one a reference dataflow pass computed for that pc (path independence), it is exactly one
   at every return, no method other than the entry runs off its end, and the entry ends with
   the prescribed depth.  Programs come from the real compiler's bytes (env BCS: ndjson of
   [id, bytes, enddepth]) read by the independent decoder.                               *)
EXTENDS FMLStackDepth, TLC, Json, IOUtils
VARIABLES t, m, pc, d, verdict

ASSUME TLCSet(1, ndJsonDeserialize(IOEnv.BCS))
Rec == TLCGet(1)
ASSUME TLCSet(2, [i \in 1..Len(Rec) |-> Decode(Rec[i].bytes)])
Prog(i) == TLCGet(2)[i]

ASSUME TLCSet(3, [i \in 1..Len(Rec) |-> IF Prog(i).ok THEN [mi \in MethodIdxs(Prog(i)) |-> DepthMap(Prog(i), mi)] ELSE <<>>])
Depths(i, mi) == TLCGet(3)[i][mi]
ASSUME TLCSet(4, [i \in 1..Len(Rec) |-> IF ~Prog(i).ok THEN "undecodable" ELSE IF Prog(i).rest # 0 THEN "trailing-bytes" ELSE WhyNotWF(Prog(i))])
Static(i) == TLCGet(4)[i]

\* judgement of one program point
Judge(i, mi, p, dd) ==
  LET P == Prog(i) IN
  IF p > Len(Code(P, mi)) THEN
       IF mi # P.entry THEN "runs-off-end" ELSE IF dd # Rec[i].enddepth THEN "entry-end-depth" ELSE "ok"
  ELSE IF p < 1 THEN "jump-outside-method"
  ELSE LET ins == Code(P, mi)[p]  eff == Effect(P, ins) IN
       IF dd < eff[1] THEN "underflow"
       ELSE IF Depths(i, mi)[p] # dd THEN "path-dependent-depth"
       ELSE IF ins.op = OP_RETURN /\ dd # 1 THEN "return-depth"
       ELSE "ok"

Init == \E i \in 1..Len(Rec) :
          /\ t = i
          /\ IF Static(i) # "ok" THEN m = -1 /\ pc = 0 /\ d = 0 /\ verdict = Static(i)
             ELSE \E mi \in MethodIdxs(Prog(i)) : m = mi /\ pc = 1 /\ d = 0 /\ verdict = Judge(i, mi, 1, 0)
Next == /\ verdict = "ok" /\ pc <= Len(Code(Prog(t), m))
        /\ \E q \in Succs(Prog(t), m, pc) :
             /\ pc' = q /\ d' = d + Effect(Prog(t), Code(Prog(t), m)[pc])[2]
             /\ t' = t /\ m' = m
             /\ verdict' = Judge(t, m, q, d')
\* one line per checked method (from its initial state) and one per offending program point
Report == /\ (pc = 1 /\ d = 0 /\ verdict = "ok") => PrintT(<<"METHOD", ToJson([id |-> Rec[t].id, m |-> m, len |-> Len(Code(Prog(t), m))])>>)
          /\ verdict # "ok" => PrintT(<<"BAD", ToJson([id |-> Rec[t].id, m |-> m, pc |-> pc, d |-> d, verdict |-> verdict])>>)
=============================================================================
