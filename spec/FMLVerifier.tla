---------------------------- MODULE FMLVerifier ----------------------------
(* Operand-stack discipline of compiled code (C02, second sentence) as a transition system:
   a state is a program point (method m, pc) of program t together with the operand-stack
   depth d relative to the method's entry; Next follows every control-flow edge applying the
   instruction's stack effect.  TLC visits every path-reachable (pc, d).  Checked in every
   state: the instruction finds the operands it pops (never negative), the depth equals the
   one a reference dataflow pass computed for that pc (path independence), it is exactly one
   at every return, no method other than the entry runs off its end, and the entry ends with
   the prescribed depth.  Programs come from the real compiler's bytes (env BCS: ndjson of
   [id, bytes, enddepth]) read by the independent decoder.                               *)
EXTENDS FMLBytecode, TLC, Json, IOUtils
VARIABLES t, m, pc, d, verdict

ASSUME TLCSet(1, ndJsonDeserialize(IOEnv.BCS))
Rec == TLCGet(1)
ASSUME TLCSet(2, [i \in 1..Len(Rec) |-> Decode(Rec[i].bytes)])
Prog(i) == TLCGet(2)[i]

Code(P, mi) == CAt(P, mi).code
NSlots(P, ci) == Cardinality({j \in 1..Len(CAt(P, ci).members) : IsKind(P, CAt(P, ci).members[j], {"slot"})})
\* <<operands required on the stack, net change>>
Effect(P, ins) ==
  LET op == ins.op IN
  CASE op = OP_LABEL -> <<0, 0>>   [] op = OP_LIT -> <<0, 1>>     [] op = OP_PRINT -> <<ins.n, 1 - ins.n>>
    [] op = OP_ARRAY -> <<2, -1>>  [] op = OP_OBJECT -> LET k == IF IsKind(P, ins.a, {"class"}) THEN NSlots(P, ins.a) + 1 ELSE 1 IN <<k, 1 - k>>
    [] op = OP_GETFLD -> <<1, 0>>  [] op = OP_SETFLD -> <<2, -1>>
    [] op = OP_CALLM -> <<ins.n, 1 - ins.n>>  [] op = OP_CALLF -> <<ins.n, 1 - ins.n>>
    [] op = OP_SETLOC -> <<1, 0>>  [] op = OP_GETLOC -> <<0, 1>>  [] op = OP_SETGLB -> <<1, 0>>  [] op = OP_GETGLB -> <<0, 1>>
    [] op = OP_BRANCH -> <<1, -1>> [] op = OP_JUMP -> <<0, 0>>    [] op = OP_RETURN -> <<1, 0>>   [] op = OP_DROP -> <<1, -1>>
\* pc of the label a jump in method mi refers to (0 if it is not defined in this method)
Target(P, mi, a) ==
  IF ~IsKind(P, a, {"str"}) THEN 0 ELSE
  LET hits == {q \in LabelSitesOf(P, mi) : IsKind(P, Code(P, mi)[q].a, {"str"}) /\ StrOf(P, Code(P, mi)[q].a) = StrOf(P, a)} IN
  IF hits = {} THEN 0 ELSE CHOOSE q \in hits : \A q2 \in hits : q <= q2
Succs(P, mi, p) ==
  LET ins == Code(P, mi)[p] IN
  CASE ins.op = OP_RETURN -> {}
    [] ins.op = OP_JUMP   -> {Target(P, mi, ins.a)}
    [] ins.op = OP_BRANCH -> {Target(P, mi, ins.a), p + 1}
    [] OTHER -> {p + 1}

\* reference dataflow: first depth that reaches each pc along a worklist traversal (0 = unreached is encoded as -1)
RECURSIVE Flow(_,_,_,_)
Flow(P, mi, work, map) ==
  IF work = {} THEN map ELSE
  LET w == CHOOSE x \in work : TRUE
      p == w[1]  dd == w[2] IN
  IF p < 1 \/ p > Len(Code(P, mi)) \/ map[p] # -1 THEN Flow(P, mi, work \ {w}, map)
  ELSE LET eff == Effect(P, Code(P, mi)[p])
           nd == dd + eff[2] IN
       Flow(P, mi, (work \ {w}) \cup {<<q, nd>> : q \in Succs(P, mi, p)}, [map EXCEPT ![p] = dd])
DepthMap(P, mi) == Flow(P, mi, {<<1, 0>>}, [p \in 1..Len(Code(P, mi)) |-> -1])
ASSUME TLCSet(3, [i \in 1..Len(Rec) |-> IF Prog(i).ok THEN [mi \in MethodIdxs(Prog(i)) |-> DepthMap(Prog(i), mi)] ELSE <<>>])
Depths(i, mi) == TLCGet(3)[i][mi]
ASSUME TLCSet(4, [i \in 1..Len(Rec) |-> IF ~Prog(i).ok THEN "undecodable" ELSE IF Prog(i).rest # 0 THEN "trailing-bytes" ELSE WhyNotWF(Prog(i))])
Static(i) == TLCGet(4)[i]

\* judgement of one program point
Judge(i, mi, p, dd) ==
  LET P == Prog(i) IN
  IF p > Len(Code(P, mi)) THEN
       IF mi # P.entry THEN "runs-off-end" ELSE IF dd # Rec[i].enddepth THEN "entry-end-depth" ELSE "ok"
  ELSE IF p < 1 THEN "jump-outside-method"
  ELSE LET ins == Code(P, mi)[p]  eff == Effect(P, ins) IN
       IF dd < eff[1] THEN "underflow"
       ELSE IF Depths(i, mi)[p] # dd THEN "path-dependent-depth"
       ELSE IF ins.op = OP_RETURN /\ dd # 1 THEN "return-depth"
       ELSE "ok"

Init == \E i \in 1..Len(Rec) :
          /\ t = i
          /\ IF Static(i) # "ok" THEN m = -1 /\ pc = 0 /\ d = 0 /\ verdict = Static(i)
             ELSE \E mi \in MethodIdxs(Prog(i)) : m = mi /\ pc = 1 /\ d = 0 /\ verdict = Judge(i, mi, 1, 0)
Next == /\ verdict = "ok" /\ pc <= Len(Code(Prog(t), m))
        /\ \E q \in Succs(Prog(t), m, pc) :
             /\ pc' = q /\ d' = d + Effect(Prog(t), Code(Prog(t), m)[pc])[2]
             /\ t' = t /\ m' = m
             /\ verdict' = Judge(t, m, q, d')
\* one line per checked method (from its initial state) and one per offending program point
Report == /\ (pc = 1 /\ d = 0 /\ verdict = "ok") => PrintT(<<"METHOD", ToJson([id |-> Rec[t].id, m |-> m, len |-> Len(Code(Prog(t), m))])>>)
          /\ verdict # "ok" => PrintT(<<"BAD", ToJson([id |-> Rec[t].id, m |-> m, pc |-> pc, d |-> d, verdict |-> verdict])>>)
=============================================================================
