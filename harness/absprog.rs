// Projection of an in-memory Program into the abstract JSON form compared (by TLC) with the
// independent TLA+ decoder's reading of the bytes.
use crate::bytecode::program::{Program, ProgramObject};
use crate::bytecode::bytecode::OpCode;
use super::hooks::bytes_json;

pub fn instr(o: &OpCode) -> String {
    let (a, n): (u32, u32) = match o {
        OpCode::Label { name } => (name.value() as u32, 0),
        OpCode::Literal { index } => (index.value() as u32, 0),
        OpCode::Print { format, arguments } => (format.value() as u32, arguments.value() as u32),
        OpCode::Array => (0, 0),
        OpCode::Object { class } => (class.value() as u32, 0),
        OpCode::GetField { name } => (name.value() as u32, 0),
        OpCode::SetField { name } => (name.value() as u32, 0),
        OpCode::CallMethod { name, arguments } => (name.value() as u32, arguments.value() as u32),
        OpCode::CallFunction { name, arguments } => (name.value() as u32, arguments.value() as u32),
        OpCode::SetLocal { index } => (index.value() as u32, 0),
        OpCode::GetLocal { index } => (index.value() as u32, 0),
        OpCode::SetGlobal { name } => (name.value() as u32, 0),
        OpCode::GetGlobal { name } => (name.value() as u32, 0),
        OpCode::Branch { label } => (label.value() as u32, 0),
        OpCode::Jump { label } => (label.value() as u32, 0),
        OpCode::Return => (0, 0),
        OpCode::Drop => (0, 0),
    };
    format!("{{\"op\":{},\"a\":{},\"n\":{}}}", o.to_hex(), a, n)
}

pub fn absprog(p: &Program) -> String {
    let mut cs: Vec<String> = Vec::new();
    for c in p.constant_pool.iter() {
        cs.push(match c {
            ProgramObject::Integer(n) => format!("{{\"k\":\"int\",\"i\":{}}}", n),
            ProgramObject::Boolean(b) => format!("{{\"k\":\"bool\",\"b\":{}}}", b),
            ProgramObject::Null => "{\"k\":\"null\"}".to_string(),
            ProgramObject::String(s) => format!("{{\"k\":\"str\",\"bytes\":{}}}", bytes_json(s.as_bytes())),
            ProgramObject::Slot { name } => format!("{{\"k\":\"slot\",\"name\":{}}}", name.value()),
            ProgramObject::Class(v) => format!("{{\"k\":\"class\",\"members\":[{}]}}", v.iter().map(|i| i.value().to_string()).collect::<Vec<String>>().join(",")),
            ProgramObject::Method { name, parameters, locals, code } => {
                let body = match p.code.materialize(code) {
                    Ok(v) => v.iter().map(|o| instr(o)).collect::<Vec<String>>().join(","),
                    Err(_) => "{\"op\":255,\"a\":0,\"n\":0}".to_string(),
                };
                format!("{{\"k\":\"method\",\"name\":{},\"arity\":{},\"locals\":{},\"start\":{},\"len\":{},\"code\":[{}]}}",
                    name.value(), parameters.value(), locals.value(), code.start().value_usize(), code.length(), body)
            }
        });
    }
    // the label table (derived by the compiler / loader, never stored in a file): for every string constant, the address it names or -1
    let mut ls: Vec<String> = Vec::new();
    for (i, c) in p.constant_pool.iter().enumerate() {
        if let ProgramObject::String(s) = c {
            let a: i64 = p.labels.get(s).map(|a| a.value_usize() as i64).unwrap_or(-1);
            ls.push(format!("[{},{}]", i, a));
        }
    }
    let gs: Vec<String> = p.globals.iter().map(|g| g.value().to_string()).collect();
    let entry: i64 = p.entry.get().map(|e| e.value() as i64).unwrap_or(-1);
    format!("{{\"consts\":[{}],\"globals\":[{}],\"entry\":{},\"codelen\":{},\"labels\":[{}]}}", cs.join(","), gs.join(","), entry, p.code.length(), ls.join(","))
}
