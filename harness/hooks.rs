// Recorder for the VM linearization point: one event per executed instruction,
// emitted after eval_opcode returned Ok. It projects the abstract state only; it never judges.
use std::cell::RefCell;
use crate::bytecode::program::{Program, Address};
use crate::bytecode::state::State;
use crate::bytecode::bytecode::OpCode;
use crate::bytecode::heap::{Pointer, HeapObject};

pub struct Recorder {
    pub on: bool,
    pub trace: bool,
    pub steps: u64,
    pub budget: u64,
    pub events: Vec<String>,
    pub out: String,
    pub allocs: usize,
}

thread_local! {
    pub static REC: RefCell<Recorder> = RefCell::new(Recorder { on: false, trace: false, steps: 0, budget: 0, events: Vec::new(), out: String::new(), allocs: 0 });
}

pub const BUDGET_MARK: &str = "VERIF_STEP_BUDGET_EXCEEDED";

pub struct TraceOut;
impl std::fmt::Write for TraceOut {
    fn write_str(&mut self, s: &str) -> std::fmt::Result {
        REC.with(|r| r.borrow_mut().out.push_str(s));
        Ok(())
    }
}

pub fn begin(trace: bool, budget: u64) {
    REC.with(|r| {
        let mut r = r.borrow_mut();
        r.on = true; r.trace = trace; r.steps = 0; r.budget = budget;
        r.events.clear(); r.out.clear(); r.allocs = 0;
    });
}

pub fn end() -> (Vec<String>, String, u64) {
    REC.with(|r| {
        let mut r = r.borrow_mut();
        r.on = false;
        (std::mem::take(&mut r.events), std::mem::take(&mut r.out), r.steps)
    })
}

pub fn val(p: &Pointer) -> String {
    match p {
        Pointer::Null => "{\"k\":\"null\",\"v\":0}".to_string(),
        Pointer::Integer(i) => format!("{{\"k\":\"int\",\"v\":{}}}", i),
        Pointer::Boolean(b) => format!("{{\"k\":\"bool\",\"v\":{}}}", if *b { 1 } else { 0 }),
        Pointer::Reference(r) => format!("{{\"k\":\"ref\",\"v\":{}}}", r.as_usize()),
    }
}

pub fn bytes_json(b: &[u8]) -> String {
    let v: Vec<String> = b.iter().map(|x| x.to_string()).collect();
    format!("[{}]", v.join(","))
}

pub fn heap_object(o: &HeapObject) -> String {
    match o {
        HeapObject::Array(a) => {
            let es: Vec<String> = a.iter().map(val).collect();
            format!("{{\"k\":\"arr\",\"elems\":[{}]}}", es.join(","))
        }
        HeapObject::Object(o) => {
            let fs: Vec<String> = o.fields.iter().map(|(n, v)| format!("[{},{}]", bytes_json(n.as_bytes()), val(v))).collect();
            let ms: Vec<String> = o.methods.iter().map(|(n, _)| bytes_json(n.as_bytes())).collect();
            format!("{{\"k\":\"obj\",\"parent\":{},\"fields\":[{}],\"methods\":[{}]}}", val(&o.parent), fs.join(","), ms.join(","))
        }
    }
}

pub fn final_state(state: &State) -> String {
    let mut gs: Vec<(&String, &Pointer)> = state.frame_stack.globals.verif_map().iter().collect();
    gs.sort_by(|a, b| a.0.as_bytes().cmp(b.0.as_bytes()));
    let g: Vec<String> = gs.iter().map(|(n, v)| format!("[{},{}]", bytes_json(n.as_bytes()), val(v))).collect();
    let h: Vec<String> = state.heap.verif_memory().iter().map(heap_object).collect();
    let st: Vec<String> = state.operand_stack.verif_view().iter().map(val).collect();
    format!("{{\"globals\":[{}],\"heap\":[{}],\"stack\":[{}],\"fd\":{},\"heapsize\":{}}}", g.join(","), h.join(","), st.join(","), state.frame_stack.verif_frames().len(), state.heap.verif_size())
}

pub fn on_step(_program: &Program, state: &State, address: Address, opcode: &OpCode) {
    let (on, trace, over) = REC.with(|r| {
        let mut r = r.borrow_mut();
        if !r.on { return (false, false, false); }
        r.steps += 1;
        (true, r.trace, r.budget > 0 && r.steps > r.budget)
    });
    if !on { return; }
    if over { panic!("{}", BUDGET_MARK); }
    if !trace { return; }
    let st = state.operand_stack.verif_view();
    let top = st.last().map(val).unwrap_or("{\"k\":\"none\",\"v\":0}".to_string());
    let next: i64 = state.instruction_pointer.get().map(|a| a.value_usize() as i64).unwrap_or(-1);
    let frames = state.frame_stack.verif_frames();
    let loc: Vec<String> = frames.last().map(|f| f.verif_locals().iter().map(val).collect()).unwrap_or(Vec::new());
    let mem = state.heap.verif_memory();
    REC.with(|r| {
        let mut r = r.borrow_mut();
        // heap objects created by this step are logged in full (shape + contents)
        let mut newobjs: Vec<String> = Vec::new();
        while r.allocs < mem.len() { newobjs.push(heap_object(&mem[r.allocs])); r.allocs += 1; }
        let ol = r.out.len();
        let e = format!("{{\"pc\":{},\"op\":{},\"sd\":{},\"top\":{},\"fd\":{},\"hl\":{},\"ol\":{},\"next\":{},\"loc\":[{}],\"new\":[{}]}}",
            address.value_usize(), opcode.to_hex(), st.len(), top, frames.len(), mem.len(), ol, next, loc.join(","), newobjs.join(","));
        r.events.push(e);
    });
}
