// Verification harness compiled into the fml binary under --cfg kondziu_fml_verif.
// It only drives the real parser / compiler / serializer / VM and records what they did
// (ndjson); every verdict is reached elsewhere (TLC over the TLA+ specifications in /verif/spec).
//
//   fml --verif run   IN.ndjson OUT.ndjson   source text  -> parse, compile, serialize, load, execute
//   fml --verif exec  IN.ndjson OUT.ndjson   bytes        -> load, (re-serialize, list), execute
//   fml --verif sink  IN.ndjson OUT.ndjson   bytes+policy -> serialize into a chunking sink, record calls
//   fml --verif astser IN.ndjson OUT.ndjson  source/AST   -> AST through the json/lisp/yaml serializers
pub mod hooks;
pub mod norm;
pub mod absprog;

use std::io::{BufRead, Write};
use std::panic::{catch_unwind, AssertUnwindSafe};
use serde_json::{json, Value};

use crate::fml::TopLevelParser;
use crate::parser::AST;
use crate::bytecode::serializable::Serializable;
use crate::bytecode::program::Program;
use crate::bytecode::state::State;
use crate::bytecode::interpreter::evaluate_with;

fn guard<T, F: FnOnce() -> T>(f: F) -> Result<T, String> {
    match catch_unwind(AssertUnwindSafe(f)) {
        Ok(v) => Ok(v),
        Err(e) => {
            let msg = if let Some(s) = e.downcast_ref::<String>() { s.clone() }
                      else if let Some(s) = e.downcast_ref::<&str>() { s.to_string() }
                      else { "panic".to_string() };
            Err(msg)
        }
    }
}

fn wants(rec: &Value, what: &str) -> bool {
    match rec.get("want") {
        Some(Value::Array(a)) => a.iter().any(|x| x.as_str() == Some(what)),
        _ => false,
    }
}

fn source_of(rec: &Value) -> String {
    if let Some(Value::String(s)) = rec.get("text") { return s.clone(); }
    if let Some(Value::Array(a)) = rec.get("src") {
        return a.iter().filter_map(|x| x.as_u64()).filter_map(|c| std::char::from_u32(c as u32)).collect();
    }
    String::new()
}

fn bytes_of(v: Option<&Value>) -> Vec<u8> {
    match v { Some(Value::Array(a)) => a.iter().map(|x| x.as_u64().unwrap_or(0) as u8).collect(), _ => Vec::new() }
}

fn raw(s: String) -> Value { serde_json::from_str(&s).unwrap_or(Value::String(s)) }

// Execute a loaded program; returns the "run" record.
fn execute(program: &Program, trace: bool, want_final: bool, budget: u64) -> Value {
    let state = guard(|| State::from(program));
    let mut state = match state {
        Ok(Ok(s)) => s,
        Ok(Err(e)) => return json!({"init":"err","ok":false,"panic":false,"diverged":false,"msg":format!("{:#}", e),"out":[],"steps":0}),
        Err(m) => return json!({"init":"panic","ok":false,"panic":true,"diverged":false,"msg":m,"out":[],"steps":0}),
    };
    let mut out = hooks::TraceOut;
    hooks::begin(trace, budget);
    let r = guard(|| evaluate_with(program, &mut state, &mut out));
    let (events, output, steps) = hooks::end();
    let (ok, panicked, diverged, msg) = match &r {
        Ok(Ok(())) => (true, false, false, String::new()),
        Ok(Err(e)) => (false, false, false, format!("{:#}", e)),
        Err(m) if m.contains(hooks::BUDGET_MARK) => (false, false, true, String::new()),
        Err(m) => (false, true, false, m.clone()),
    };
    let mut rec = json!({"init":"ok","ok":ok,"panic":panicked,"diverged":diverged,"msg":msg,"out":output.as_bytes().to_vec(),"steps":steps});
    if trace {
        let evs: Vec<Value> = events.into_iter().map(raw).collect();
        rec["events"] = Value::Array(evs);
    }
    if want_final {
        if let Ok(s) = guard(|| hooks::final_state(&state)) { rec["final"] = raw(s); }
    }
    rec
}

fn serialize_to_vec(program: &Program) -> Result<Vec<u8>, String> {
    let mut bytes: Vec<u8> = Vec::new();
    match guard(|| program.serialize(&mut bytes)) {
        Ok(Ok(())) => Ok(bytes),
        Ok(Err(e)) => Err(format!("{:#}", e)),
        Err(m) => Err(m),
    }
}

fn after_bytes(rec: &Value, out: &mut Value, bytes: &Vec<u8>, budget: u64) {
    // load
    let loaded = guard(|| Program::from_bytes(&mut std::io::Cursor::new(bytes.clone())));
    let loaded = match loaded {
        Ok(p) => { out["load"] = json!("ok"); p }
        Err(m) => { out["load"] = json!("panic"); out["load_msg"] = json!(m); return; }
    };
    if wants(rec, "prog2") { if let Ok(s) = guard(|| absprog::absprog(&loaded)) { out["prog2"] = raw(s); } }
    if wants(rec, "bytes2") {
        match serialize_to_vec(&loaded) { Ok(b) => { out["bytes2"] = json!(b); } Err(m) => { out["bytes2_err"] = json!(m); } }
    }
    if wants(rec, "listing") {
        if let Ok(s) = guard(|| format!("{}", loaded)) { out["listing"] = json!(s); }
    }
    if wants(rec, "run") || wants(rec, "events") {
        out["run"] = execute(&loaded, wants(rec, "events"), wants(rec, "final"), budget);
    }
    if wants(rec, "repeat") {
        // the same loaded program executed again on a fresh state (fresh HashMap seeds)
        let r2 = execute(&loaded, false, false, budget);
        out["run_again"] = json!({"ok": r2["ok"], "out": r2["out"], "diverged": r2["diverged"]});
    }
}

fn do_run(rec: &Value) -> Value {
    let id = rec.get("id").cloned().unwrap_or(json!(0));
    let budget = rec.get("budget").and_then(|b| b.as_u64()).unwrap_or(0);
    let mut out = json!({"id": id});
    let src = source_of(rec);
    let ast: AST = match guard(|| TopLevelParser::new().parse(&src).map_err(|e| format!("{:?}", e))) {
        Ok(Ok(a)) => { out["parse"] = json!("ok"); a }
        Ok(Err(m)) => { out["parse"] = json!("err"); out["parse_msg"] = json!(m); return out; }
        Err(m) => { out["parse"] = json!("panic"); out["parse_msg"] = json!(m); return out; }
    };
    if wants(rec, "ast") {
        if let Ok(n) = guard(|| norm::norm(&ast)) { out["names"] = norm::names(&n); out["ast"] = n; }
    }
    if wants(rec, "parseonly") { return out; }
    let program = match guard(|| crate::bytecode::compile(&ast)) {
        Ok(Ok(p)) => { out["compile"] = json!("ok"); p }
        Ok(Err(e)) => { out["compile"] = json!("err"); out["compile_msg"] = json!(format!("{:#}", e)); return out; }
        Err(m) => { out["compile"] = json!("panic"); out["compile_msg"] = json!(m); return out; }
    };
    if wants(rec, "prog") { if let Ok(s) = guard(|| absprog::absprog(&program)) { out["prog"] = raw(s); } }
    if wants(rec, "repeat") {
        // compile the same AST again in the same process: byte-identical output expected
        if let Ok(Ok(p2)) = guard(|| crate::bytecode::compile(&ast)) {
            if let Ok(b) = serialize_to_vec(&p2) { out["bytes_again"] = json!(b); }
        }
    }
    if wants(rec, "direct") {
        // the compiled program executed without the byte round trip
        let r = execute(&program, false, false, budget);
        out["run_direct"] = json!({"ok": r["ok"], "out": r["out"], "diverged": r["diverged"], "panic": r["panic"], "init": r["init"]});
    }
    let bytes = match serialize_to_vec(&program) {
        Ok(b) => { out["ser"] = json!("ok"); b }
        Err(m) => { out["ser"] = json!("err"); out["ser_msg"] = json!(m); return out; }
    };
    out["bytes"] = json!(bytes);
    after_bytes(rec, &mut out, &bytes, budget);
    out
}

fn do_exec(rec: &Value) -> Value {
    let id = rec.get("id").cloned().unwrap_or(json!(0));
    let budget = rec.get("budget").and_then(|b| b.as_u64()).unwrap_or(0);
    let mut out = json!({"id": id});
    let bytes = bytes_of(rec.get("bytes"));
    after_bytes(rec, &mut out, &bytes, budget);
    out
}

// A byte sink that honours the Write contract but accepts only part of a request.
struct ChunkSink {
    limit: usize,            // per-call acceptance limit (0 = unlimited)
    short_at: i64,           // call index (0-based) at which only `short_n` bytes are accepted (-1 = never)
    short_n: usize,
    interrupt_at: i64,       // call index answered with ErrorKind::Interrupted once (-1 = never)
    zero_at: i64,            // call index from which on 0 bytes are accepted (-1 = never)
    fail_at: i64,            // call index from which on every call is answered with a hard error (-1 = never)
    fail_once_at: i64,       // call index answered with a hard error once; later calls are served normally (-1 = never)
    zero_once_at: i64,       // call index at which 0 bytes are accepted once (-1 = never)
    calls: Vec<(Vec<u8>, i64)>,
    delivered: Vec<u8>,
    interrupted_done: bool,
}
impl Write for ChunkSink {
    fn write(&mut self, buf: &[u8]) -> std::io::Result<usize> {
        let i = self.calls.len() as i64;
        if self.interrupt_at == i && !self.interrupted_done {
            self.interrupted_done = true;
            self.calls.push((buf.to_vec(), -1));
            return Err(std::io::Error::new(std::io::ErrorKind::Interrupted, "interrupted"));
        }
        if self.fail_at >= 0 && i >= self.fail_at {
            self.calls.push((buf.to_vec(), -2));
            return Err(std::io::Error::new(std::io::ErrorKind::Other, "sink failure"));
        }
        if self.fail_once_at == i {
            self.calls.push((buf.to_vec(), -2));
            return Err(std::io::Error::new(std::io::ErrorKind::Other, "sink failure (once)"));
        }
        let mut n = buf.len();
        if self.limit > 0 && n > self.limit { n = self.limit; }
        if self.zero_once_at == i { n = 0; }
        if self.short_at == i && n > self.short_n { n = self.short_n; }
        if self.zero_at >= 0 && i >= self.zero_at { n = 0; }
        self.delivered.extend_from_slice(&buf[..n]);
        self.calls.push((buf.to_vec(), n as i64));
        Ok(n)
    }
    // a gathered write is ONE request for the concatenation of its slices and may be accepted partially like any other (the default implementation would only
    // ever offer the first slice, which hides writers that mistake a partly accepted gather for a complete one)
    fn write_vectored(&mut self, bufs: &[std::io::IoSlice<'_>]) -> std::io::Result<usize> {
        let mut all: Vec<u8> = Vec::new();
        for b in bufs { all.extend_from_slice(b); }
        self.write(&all)
    }
    fn flush(&mut self) -> std::io::Result<()> { Ok(()) }
}

fn do_sink(rec: &Value) -> Value {
    let id = rec.get("id").cloned().unwrap_or(json!(0));
    let mut out = json!({"id": id});
    let bytes = bytes_of(rec.get("bytes"));
    let program = match guard(|| Program::from_bytes(&mut std::io::Cursor::new(bytes.clone()))) {
        Ok(p) => p,
        Err(m) => { out["load"] = json!("panic"); out["load_msg"] = json!(m); return out; }
    };
    let geti = |k: &str, d: i64| rec.get(k).and_then(|x| x.as_i64()).unwrap_or(d);
    let mut sink = ChunkSink {
        limit: geti("limit", 0) as usize, short_at: geti("short_at", -1), short_n: geti("short_n", 1) as usize,
        interrupt_at: geti("interrupt_at", -1), zero_at: geti("zero_at", -1), fail_at: geti("fail_at", -1),
        fail_once_at: geti("fail_once_at", -1), zero_once_at: geti("zero_once_at", -1),
        calls: Vec::new(), delivered: Vec::new(), interrupted_done: false,
    };
    let r = guard(|| program.serialize(&mut sink));
    out["result"] = json!(match &r { Ok(Ok(())) => "ok", Ok(Err(_)) => "err", Err(_) => "panic" });
    // per call: the bytes the sink took (a prefix of the request), the length of the request, the answer
    out["calls"] = Value::Array(sink.calls.iter().map(|(b, n)| {
        let taken: &[u8] = if *n > 0 { &b[..(*n as usize).min(b.len())] } else { &b[..0] };
        json!({"req": taken, "len": b.len(), "acc": n})
    }).collect());
    out["delivered"] = json!(sink.delivered);
    out
}

fn do_astser(rec: &Value) -> Value {
    let id = rec.get("id").cloned().unwrap_or(json!(0));
    let mut out = json!({"id": id});
    let ast: AST = if rec.get("ast").is_some() {
        match guard(|| norm::denorm(&rec["ast"])) { Ok(a) => a, Err(m) => { out["parse"] = json!("panic"); out["parse_msg"] = json!(m); return out; } }
    } else {
        let src = source_of(rec);
        match guard(|| TopLevelParser::new().parse(&src).map_err(|e| format!("{:?}", e))) {
            Ok(Ok(a)) => a,
            Ok(Err(m)) => { out["parse"] = json!("err"); out["parse_msg"] = json!(m); return out; }
            Err(m) => { out["parse"] = json!("panic"); out["parse_msg"] = json!(m); return out; }
        }
    };
    out["parse"] = json!("ok");
    if let Ok(n) = guard(|| norm::norm(&ast)) { out["ast"] = n; }
    let mut formats = serde_json::Map::new();
    for (name, ser) in [("json", crate::ASTSerializer::JSON), ("lisp", crate::ASTSerializer::LISP), ("yaml", crate::ASTSerializer::YAML)].iter() {
        let mut f = json!({});
        match guard(|| ser.serialize(&ast)) {
            Ok(Ok(text)) => {
                f["ser"] = json!("ok");
                if wants(rec, "text") { f["text"] = json!(text); }
                match guard(|| ser.deserialize(&text)) {
                    Ok(Ok(back)) => {
                        f["de"] = json!("ok");
                        if let Ok(n) = guard(|| norm::norm(&back)) { f["ast"] = n; }
                    }
                    Ok(Err(e)) => { f["de"] = json!("err"); f["msg"] = json!(format!("{:#}", e)); }
                    Err(m) => { f["de"] = json!("panic"); f["msg"] = json!(m); }
                }
            }
            Ok(Err(e)) => { f["ser"] = json!("err"); f["msg"] = json!(format!("{:#}", e)); }
            Err(m) => { f["ser"] = json!("panic"); f["msg"] = json!(m); }
        }
        formats.insert(name.to_string(), f);
    }
    out["formats"] = Value::Object(formats);
    out
}

pub fn intercept() -> bool {
    // (args_os: the ordinary command line may carry arguments that are not UTF-8, e.g. a --heap-log path; std::env::args() would panic on them)
    match std::env::args_os().nth(1) { Some(a) if a == "--verif" => {}, _ => return false }
    let args: Vec<String> = std::env::args_os().map(|a| a.to_string_lossy().into_owned()).collect();
    if args.len() < 5 { eprintln!("usage: fml --verif <run|exec|sink|astser> IN.ndjson OUT.ndjson"); std::process::exit(2); }
    std::panic::set_hook(Box::new(|_| {}));
    let cmd = args[2].as_str();
    let input = std::fs::File::open(&args[3]).expect("verif: cannot open input");
    let mut output = std::io::BufWriter::new(std::fs::OpenOptions::new().create(true).append(true).open(&args[4]).expect("verif: cannot open output"));
    let skip: usize = std::env::var("VERIF_SKIP").ok().and_then(|s| s.parse().ok()).unwrap_or(0);
    for (i, line) in std::io::BufReader::new(input).lines().enumerate() {
        if i < skip { continue; }
        let line = line.expect("verif: read error");
        if line.trim().is_empty() { continue; }
        let rec: Value = serde_json::from_str(&line).expect("verif: bad input json");
        let out = match cmd {
            "run" => do_run(&rec),
            "exec" => do_exec(&rec),
            "sink" => do_sink(&rec),
            "astser" => do_astser(&rec),
            _ => { eprintln!("verif: unknown command {}", cmd); std::process::exit(2); }
        };
        // one line per input, flushed at once: if the code under test kills the process
        // (native stack overflow, abort) the orchestrator sees exactly which input did it
        writeln!(output, "{}", out).expect("verif: write error");
        output.flush().expect("verif: flush error");
    }
    true
}
