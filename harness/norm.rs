// Projection of the parser's AST into the normalized JSON form the TLA+ specifications read.
// Identifiers stay strings (the lexer only admits ASCII identifiers and operator symbols);
// print formats become UTF-8 byte arrays (TLC cannot index strings).
use serde_json::{json, Value};
use crate::parser::AST;
use std::collections::BTreeSet;

pub fn norm(a: &AST) -> Value {
    match a {
        AST::Integer(v) => json!({"t":"Int","v":v}),
        AST::Boolean(b) => json!({"t":"Bool","v": if *b {1} else {0}}),
        AST::Null => json!({"t":"Null"}),
        AST::Variable { name, value } => json!({"t":"Let","n":name.as_str(),"e":norm(value)}),
        AST::Array { size, value } => json!({"t":"Array","size":norm(size),"init":norm(value)}),
        AST::Object { extends, members } => json!({"t":"Object","parent":norm(extends),"members":members.iter().map(|m| norm(m)).collect::<Vec<Value>>()}),
        AST::AccessVariable { name } => json!({"t":"Var","n":name.as_str()}),
        AST::AccessField { object, field } => json!({"t":"GetField","o":norm(object),"n":field.as_str()}),
        AST::AccessArray { array, index } => json!({"t":"Index","o":norm(array),"i":norm(index)}),
        AST::AssignVariable { name, value } => json!({"t":"Assign","n":name.as_str(),"e":norm(value)}),
        AST::AssignField { object, field, value } => json!({"t":"SetField","o":norm(object),"n":field.as_str(),"e":norm(value)}),
        AST::AssignArray { array, index, value } => json!({"t":"SetIndex","o":norm(array),"i":norm(index),"e":norm(value)}),
        AST::Function { name, parameters, body } => json!({"t":"Fun","n":name.as_str(),"params":parameters.iter().map(|p| p.as_str().to_owned()).collect::<Vec<String>>(),"body":norm(body)}),
        AST::CallFunction { name, arguments } => json!({"t":"Call","n":name.as_str(),"args":arguments.iter().map(|m| norm(m)).collect::<Vec<Value>>()}),
        AST::CallMethod { object, name, arguments } => json!({"t":"MCall","o":norm(object),"n":name.as_str(),"args":arguments.iter().map(|m| norm(m)).collect::<Vec<Value>>()}),
        AST::Top(es) => json!({"t":"Top","es":es.iter().map(|m| norm(m)).collect::<Vec<Value>>()}),
        AST::Block(es) => json!({"t":"Block","es":es.iter().map(|m| norm(m)).collect::<Vec<Value>>()}),
        AST::Loop { condition, body } => json!({"t":"While","c":norm(condition),"b":norm(body)}),
        AST::Conditional { condition, consequent, alternative } => json!({"t":"If","c":norm(condition),"a":norm(consequent),"b":norm(alternative)}),
        AST::Print { format, arguments } => json!({"t":"Print","f":format.as_bytes().to_vec(),"args":arguments.iter().map(|m| norm(m)).collect::<Vec<Value>>()}),
    }
}

fn collect(v: &Value, out: &mut BTreeSet<String>) {
    match v {
        Value::Object(m) => {
            for (k, x) in m.iter() {
                if k == "n" { if let Value::String(s) = x { out.insert(s.clone()); } }
                if k == "params" { if let Value::Array(ps) = x { for p in ps { if let Value::String(s) = p { out.insert(s.clone()); } } } }
                collect(x, out);
            }
        }
        Value::Array(xs) => for x in xs { collect(x, out); },
        _ => {}
    }
}

// name -> UTF-8 bytes table for every identifier the program mentions (+ the names the semantics itself uses)
pub fn names(v: &Value) -> Value {
    let mut s = BTreeSet::new();
    collect(v, &mut s);
    for n in ["get", "set", "this"].iter() { s.insert(n.to_string()); }
    Value::Array(s.into_iter().map(|n| json!({"s": n, "b": n.as_bytes().to_vec()})).collect())
}

// Inverse direction: normalized JSON -> AST (used to hand generator-made ASTs to the AST serializers).
use crate::parser::Identifier;
fn id(v: &Value) -> Identifier { Identifier::from(v.as_str().unwrap_or("")) }
fn bx(v: &Value) -> Box<AST> { Box::new(denorm(v)) }
fn bxs(v: &Value) -> Vec<Box<AST>> { v.as_array().map(|a| a.iter().map(bx).collect()).unwrap_or_default() }
pub fn denorm(v: &Value) -> AST {
    let t = v["t"].as_str().unwrap_or("");
    match t {
        "Int" => AST::Integer(v["v"].as_i64().unwrap_or(0) as i32),
        "Bool" => AST::Boolean(v["v"].as_i64().unwrap_or(0) != 0),
        "Null" => AST::Null,
        "Let" => AST::Variable { name: id(&v["n"]), value: bx(&v["e"]) },
        "Array" => AST::Array { size: bx(&v["size"]), value: bx(&v["init"]) },
        "Object" => AST::Object { extends: bx(&v["parent"]), members: bxs(&v["members"]) },
        "Var" => AST::AccessVariable { name: id(&v["n"]) },
        "GetField" => AST::AccessField { object: bx(&v["o"]), field: id(&v["n"]) },
        "Index" => AST::AccessArray { array: bx(&v["o"]), index: bx(&v["i"]) },
        "Assign" => AST::AssignVariable { name: id(&v["n"]), value: bx(&v["e"]) },
        "SetField" => AST::AssignField { object: bx(&v["o"]), field: id(&v["n"]), value: bx(&v["e"]) },
        "SetIndex" => AST::AssignArray { array: bx(&v["o"]), index: bx(&v["i"]), value: bx(&v["e"]) },
        "Fun" => AST::Function { name: id(&v["n"]), parameters: v["params"].as_array().map(|a| a.iter().map(id).collect()).unwrap_or_default(), body: bx(&v["body"]) },
        "Call" => AST::CallFunction { name: id(&v["n"]), arguments: bxs(&v["args"]) },
        "MCall" => AST::CallMethod { object: bx(&v["o"]), name: id(&v["n"]), arguments: bxs(&v["args"]) },
        "Top" => AST::Top(bxs(&v["es"])),
        "Block" => AST::Block(bxs(&v["es"])),
        "While" => AST::Loop { condition: bx(&v["c"]), body: bx(&v["b"]) },
        "If" => AST::Conditional { condition: bx(&v["c"]), consequent: bx(&v["a"]), alternative: bx(&v["b"]) },
        "Print" => {
            let bytes: Vec<u8> = v["f"].as_array().map(|a| a.iter().map(|x| x.as_u64().unwrap_or(0) as u8).collect()).unwrap_or_default();
            AST::Print { format: String::from_utf8_lossy(&bytes).into_owned(), arguments: bxs(&v["args"]) }
        }
        _ => AST::Null,
    }
}
