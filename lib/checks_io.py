"""C08 (sink), C06 (staged pipeline), C07 (parser), C11 (determinism), C17 (disassembly)."""
import os, json, random, subprocess, hashlib, time
from common import *
import pool
from checks_bytecode import tier_sizes, compile_pool
from gen import *
from unparse import unparse, strip_marks


def sh(cmd, cwd, stdin=None, timeout=60):
    p = subprocess.run(cmd, cwd=cwd, shell=isinstance(cmd, str), stdin=stdin, stdout=subprocess.PIPE, stderr=subprocess.PIPE, timeout=timeout)
    return p.returncode, p.stdout, p.stderr


SINK_PAYLOADS = [
    # stdout is line buffered: a 0x0A byte in the image followed by more than the buffer size makes it accept a write only partially
    ('payload:raw-lf-then-3000', 'print("x\n' + 'a' * 3000 + '")'),                                   # raw LF inside a string constant
    ('payload:escaped-lf-then-3000', 'print("x\\n' + 'a' * 3000 + '")'),
    ('payload:many-raw-lines', 'print("' + ('line\n' * 40) + '"); print("' + 'b' * 1500 + '")'),
    ('payload:lf-early-then-200-prints', 'print("~\\n", 10); ' + '; '.join('print("~ and some padding text to make the image long\\n", %d)' % (1000 + i) for i in range(200))),   # 0x0A as the value of an integer constant
    ('payload:big-method', 'function f(a) -> begin ' + '; '.join('print("~\\n", a + %d)' % i for i in range(120)) + ' end; f(1)'),
    ('payload:utf8', 'print("é世😀\n' + 'é' * 700 + '\n' + '世' * 500 + '")'),
    ('payload:600-globals', '; '.join('let g%d = %d' % (i, i) for i in range(600)) + '; print("~\\n", g10)'),                                   # 0x0A inside the globals table (index 10)
    # 0x0A inside LENGTH and COUNT fields: a string of 2570 = 0x0A0A bytes without any line break, one of 1290 = 0x050A, a method of 2570 instructions, 10 parameters / locals / members
    ('payload:string-length-0x0A0A', 'print("' + 'x' * 2570 + '"); print("tail")'),
    ('payload:string-length-0x050A-and-0x0A00', 'print("' + 'y' * 1290 + '"); print("' + 'z' * 2560 + '"); print("tail")'),
    ('payload:method-of-2570-instructions', 'function f(a) -> begin ' + '; '.join('a' for _ in range(1284)) + '; a end; print("pad pad pad pad pad pad pad pad pad pad pad pad pad pad pad pad pad pad"); f(1)'),
    ('payload:ten-of-everything', 'function f(a, b, c, d, e, g, h, i, j, k) -> begin let l0 = 0; let l1 = 1; let l2 = 2; let l3 = 3; let l4 = 4; let l5 = 5; let l6 = 6; let l7 = 7; let l8 = 8; let l9 = 9; a + l9 end; '
     'let o = object begin let m0 = 0; let m1 = 1; let m2 = 2; let m3 = 3; let m4 = 4; let m5 = 5; let m6 = 6; let m7 = 7; let m8 = 8; let m9 = 9 end; print("' + 'p' * 1500 + ' ~ ~", f(1, 2, 3, 4, 5, 6, 7, 8, 9, 10), o.m9)'),
    ('payload:class-300-members', 'let o = object begin ' + '; '.join('let f%d = %d' % (i, i) for i in range(300)) + ' end; print("~\\n", o.f10)'),
]


def c08(tier):
    chk = Check('C08', tier)
    chk.rule = ('design: FMLSink model-checked by TLC (write_all writer keeps PrefixInv and Complete under every sink behaviour incl. short writes, zero writes, Interrupted, '
                'errors; the write-once-ignore-count writer is required to violate PrefixInv, as a guard that the model can tell them apart). impl->spec: the real Program::serialize '
                'writes each program into a chunking sink under every per-call limit k = 1..max request and with a short write (1 byte) injected at each write call in turn, plus '
                'Interrupted / zero-write / hard-error injections; TLC replays every recorded call (TraceSink) and checks the delivered stream against the TLA+ writer Encode. '
                'Real stdout: `fml compile` redirected to a file and piped through cat versus -o, judged by FMLObservations. distinct_nontrivial = distinct (program, schedule) conversations.')
    exe = build('debug')
    wd = scratch('c08')
    r = tlc_or_die('MC_Sink', cfg='MC_Sink', workers=4, timeout=600)
    chk.add_tlc(r)
    r2 = tlc('MC_Sink', cfg='MC_SinkOnce', workers=1, timeout=600)
    if 'Invariant PrefixInv is violated' not in r2.stdout:
        raise ToolError('FMLSink vacuity guard: the write-once-ignore-count writer no longer violates PrefixInv')
    chk.add_tlc(r2)
    progs = [{'name': n, 'text': t, 'ast': None} for n, t in SINK_PAYLOADS] + pool.corpus()[:tier_sizes(tier, 6, 30)] + \
        pool.random_programs(tier_sizes(tier, 8, 120), base_seed=seed() * 6151 + 2, size=12)
    outs = compile_pool(exe, progs, wd, [], 'c08')
    rng = random.Random(seed())
    nconv = ncalls_total = 0
    sample_conv = None
    # programs are processed in groups so that the recorded conversations never have to be held all at once
    group = 6 if tier != 'thorough' else 4
    idxs = [i for i, o in enumerate(outs) if 'bytes' in o]
    for g0 in range(0, len(idxs), group):
        srecs, meta = [], {}
        for i in idxs[g0:g0 + group]:
            b = outs[i]['bytes']
            # learn the request sequence with an unlimited sink
            probe = run_harness(exe, 'sink', [{'id': 0, 'bytes': b}], wd, tag='c08p%d' % i, jobs=1)[0]
            ncalls = len(probe.get('calls', []))
            maxreq = max([c['len'] for c in probe.get('calls', [])] or [1])
            big = len(b) > 2500       # large images: a thin set of schedules (the CLI part below is what they are for; a limit of 1 on a 13 KB image means 13 000 calls)
            if big:
                scheds = [{'limit': k} for k in ((64, 1000) if tier != 'thorough' else (7, 64, 1000)) if k <= maxreq]
                js = sorted(rng.sample(range(ncalls), min(ncalls, 12 if tier != 'thorough' else 60)))
            else:
                scheds = [{'limit': k} for k in range(1, min(maxreq, 12) + 1)] + [{'limit': k} for k in sorted({maxreq - 1, maxreq // 2, 64, 1000}) if k > 12 and k < maxreq]
                cap = 150 if tier != 'thorough' else 400
                js = list(range(ncalls)) if ncalls <= cap else sorted(rng.sample(range(ncalls), cap))
            scheds += [{'short_at': j, 'short_n': 1} for j in js]
            scheds += [{'interrupt_at': j} for j in js[::max(1, len(js) // 10)]]
            scheds += [{'zero_at': j} for j in js[::max(1, len(js) // 6)]] + [{'fail_at': j} for j in js[::max(1, len(js) // 6)]]
            # a sink may also fail (or take nothing) ONCE and serve later calls normally: the serialization still has to stop there and report it, at EVERY call
            js1 = js if len(js) <= 90 else sorted(rng.sample(js, 90))
            scheds += [{'fail_once_at': j} for j in js1] + [{'zero_once_at': j} for j in js1[::2]]
            scheds += [{'limit': 2, 'interrupt_at': ncalls // 2}, {'limit': 3, 'short_at': ncalls // 3, 'short_n': 1}]
            for sc in scheds:
                j = len(srecs)
                meta[j] = (i, sc)
                srecs.append(dict({'id': j, 'bytes': b}, **sc))
        souts = run_harness(exe, 'sink', srecs, wd, tag='c08s%d' % g0, jobs=16)
        trecs = []
        laid = {}
        for j, so in enumerate(souts):
            i, sc = meta[j]
            if so.get('crash') is not None or 'calls' not in so:
                chk.violation('%s %s: serializing into the sink died' % (progs[i]['name'], sc), {'program': progs[i]['name'], 'schedule': sc, 'signature': {'kind': 'crash'}})
                continue
            if i not in laid:
                laid[i] = len(laid) + 1
                first = True
            else:
                first = False
            trecs.append({'id': j, 'p': laid[i], 'calls': so['calls'], 'result': so['result'], 'checklayout': first})
            chk.count((progs[i]['name'], json.dumps(sc, sort_keys=True)))
        ppath = os.path.join(wd, 'sinkp.%d.ndjson' % g0)
        write_ndjson(ppath, [{'expected': outs[i]['bytes']} for i, _ in sorted(laid.items(), key=lambda kv: kv[1])])
        path = os.path.join(wd, 'sink.%d.ndjson' % g0)
        write_ndjson(path, trecs)
        rt = tlc_or_die('TraceSink', env={'SINK': path, 'SINKP': ppath}, workers=12, timeout=1800, tag='c08t')
        chk.add_tlc(rt)
        vs = {v['id']: v for v in rt.lines.get('VERDICT', [])}
        if len(vs) != len(trecs):
            raise ToolError('TraceSink: %d verdicts for %d conversations' % (len(vs), len(trecs)))
        for rec in trecs:
            v = vs[rec['id']]
            chk.traces += 1
            nconv += 1
            ncalls_total += len(rec['calls'])
            if sample_conv is None and len(rec['calls']) > 6 and 'short_at' in meta[rec['id']][1]:
                sample_conv = {'program': progs[meta[rec['id']][0]]['name'], 'schedule': meta[rec['id']][1], 'calls': [[c['len'], c['acc']] for c in rec['calls'][:12]], 'result': rec['result']}
            if v['verdict'] != 'ok':
                i, sc = meta[rec['id']]
                chk.violation('%s under sink schedule %s: %s' % (progs[i]['name'], sc, v['verdict']),
                              {'program': progs[i]['name'], 'source': progs[i]['text'][:2000], 'schedule': sc, 'verdict': v['verdict'], 'bytes': outs[i]['bytes'][:4000],
                               'delivered_len': sum(max(c['acc'], 0) for c in rec['calls']), 'expected_len': len(outs[i]['bytes']),
                               'signature': {'kind': 'sink', 'verdict': v['verdict']}})
        for f in (ppath, path):
            try:
                os.remove(f)
            except OSError:
                pass
    log('[c08] TraceSink done %.0fs' % (time.time() - chk.t0))
    # the real stdout: redirect and pipe versus -o
    obs = []
    for i, p in enumerate(progs[:tier_sizes(tier, 18, 120)]):
        if 'bytes' not in outs[i]:
            continue
        src = os.path.join(wd, 'r%d.fml' % i)
        open(src, 'w', encoding='utf-8').write(p['text'])
        js = os.path.join(wd, 'r%d.json' % i)
        rc, _, _ = sh([exe, 'parse', src, '--format', 'json', '-o', js], wd)
        if rc != 0:
            continue
        variants = {'-o file': [exe, 'compile', js, '-o', os.path.join(wd, 'r%d.o.bc' % i)],
                    'redirect': '"%s" compile "%s" > "%s"' % (exe, js, os.path.join(wd, 'r%d.redirect.bc' % i)),
                    'pipe': '"%s" compile "%s" | cat > "%s"' % (exe, js, os.path.join(wd, 'r%d.pipe.bc' % i)),
                    'stdin+redirect': '"%s" compile --input-format json < "%s" > "%s"' % (exe, js, os.path.join(wd, 'r%d.stdin+redirect.bc' % i))}
        for name, cmd in variants.items():
            rc, so, se = sh(cmd, wd)
            f = os.path.join(wd, 'r%d.%s.bc' % (i, 'o' if name == '-o file' else name))
            data = open(f, 'rb').read() if os.path.exists(f) else b''
            obs.append({'key': p['name'], 'val': {'exit': 0 if rc == 0 else 1, 'bytes': hashlib.sha1(data).hexdigest(), 'len': len(data)}, 'cfg': name})
            chk.count((p['name'], 'cli:' + name))
        obs.append({'key': p['name'], 'val': {'exit': 0, 'bytes': hashlib.sha1(bytes(outs[i]['bytes'])).hexdigest(), 'len': len(outs[i]['bytes'])}, 'cfg': 'in-memory Vec'})
    # real sinks that stop taking bytes: a reader that leaves early, a consumer that is already gone, a full device.  Each run is one conversation for TraceSink
    # (what arrived must be a prefix; success may only be reported when everything arrived: FMLSink.Complete)
    fprogs = [{'name': 'failing-sink:200KB-image', 'text': 'print("%s\\n"); print("~\\n", 1)' % ('q' * 200000), 'ast': None},
              {'name': 'failing-sink:small-image', 'text': 'print("small ~\\n", 1)', 'ast': None}]
    fouts = compile_pool(exe, fprogs, wd, [], 'c08f')
    frecs, fexp, fmeta = [], [], {}
    for i, p in enumerate(fprogs):
        if 'bytes' not in fouts[i]:
            raise ToolError('C08: %s did not compile' % p['name'])
        src = os.path.join(wd, 'f%d.fml' % i)
        open(src, 'w', encoding='utf-8').write(p['text'])
        js = os.path.join(wd, 'f%d.json' % i)
        sh([exe, 'parse', src, '--format', 'json', '-o', js], wd)
        fexp.append({'expected': fouts[i]['bytes']})
        got = os.path.join(wd, 'f%d.got' % i)
        rcf = os.path.join(wd, 'f%d.rc' % i)
        sinks = {'reader leaves after 16 bytes (| head -c 16)': '"%s" compile "%s" | head -c 16 > "%s"; echo ${PIPESTATUS[0]} > "%s"' % (exe, js, got, rcf),
                 'consumer already gone (| true)': ': > "%s"; ( sleep 0.5; "%s" compile "%s"; echo $? > "%s" ) | true; sleep 0.1' % (got, exe, js, rcf),
                 'device full (> /dev/full)': ': > "%s"; "%s" compile "%s" > /dev/full; echo $? > "%s"' % (got, exe, js, rcf),
                 'healthy pipe (| cat)': '"%s" compile "%s" | cat > "%s"; echo ${PIPESTATUS[0]} > "%s"' % (exe, js, got, rcf)}
        for sname, cmd in sinks.items():
            if sname.startswith('reader leaves') and len(fouts[i]['bytes']) < 150000:
                continue          # a small image fits into the pipe buffer before the reader leaves: nothing is prescribed
            for f in (got, rcf):
                if os.path.exists(f):
                    os.remove(f)
            subprocess.run(['bash', '-c', cmd], cwd=wd, stdout=subprocess.PIPE, stderr=subprocess.PIPE, timeout=120)
            delivered = list(open(got, 'rb').read()) if os.path.exists(got) else []
            try:
                rc = int(open(rcf).read().strip())
            except (OSError, ValueError):
                raise ToolError('C08: no exit status recorded for %s under %s' % (p['name'], sname))
            j = len(frecs)
            fmeta[j] = (p['name'], sname, rc, len(delivered))
            frecs.append({'id': j, 'p': i + 1, 'calls': [{'req': delivered, 'len': len(fouts[i]['bytes']), 'acc': len(delivered)}], 'result': 'ok' if rc == 0 else 'err', 'checklayout': False})
            chk.count((p['name'], 'failing sink: ' + sname))
    fpath, fppath = os.path.join(wd, 'fsink.ndjson'), os.path.join(wd, 'fsinkp.ndjson')
    write_ndjson(fpath, frecs)
    write_ndjson(fppath, fexp)
    rf = tlc_or_die('TraceSink', env={'SINK': fpath, 'SINKP': fppath}, workers=2, timeout=900, tag='c08f')
    chk.add_tlc(rf)
    fv = {v['id']: v for v in rf.lines.get('VERDICT', [])}
    if len(fv) != len(frecs):
        raise ToolError('TraceSink: %d verdicts for %d command-line conversations' % (len(fv), len(frecs)))
    for j, (pname, sname, rc, n) in fmeta.items():
        chk.traces += 1
        # an error reported although everything arrived is not a violation of this property here (the consumer may be gone after the last byte): only dropped bytes under a reported success
        if fv[j]['verdict'] not in ('ok', 'error-reported-though-the-sink-never-failed'):
            chk.violation('%s, %s: exit status %d with %d bytes delivered: %s' % (pname, sname, rc, n, fv[j]['verdict']),
                          {'program': pname, 'sink': sname, 'exit': rc, 'delivered': n, 'verdict': fv[j]['verdict'], 'signature': {'kind': 'cli-failing-sink', 'verdict': fv[j]['verdict']}})
    chk.notes['command_line_failing_sinks'] = {'%s / %s' % (a, b): 'exit %d, %d bytes' % (c, d) for (a, b, c, d) in fmeta.values()}
    opath = os.path.join(wd, 'obs.ndjson')
    write_ndjson(opath, obs)
    ro = tlc_or_die('FMLObservations', env={'OBS': opath}, workers=1, timeout=600)
    chk.add_tlc(ro)
    if not ro.lines.get('DONE'):
        raise ToolError('FMLObservations did not reach the end of the history')
    for inc in ro.lines.get('INCONSISTENT', []):
        a, b = obs[inc['first'] - 1], obs[inc['second'] - 1]
        p = [x for x in progs if x['name'] == inc['key']][0]
        chk.violation('%s: `fml compile` wrote %d bytes via %s but %d bytes via %s' % (inc['key'], a['val']['len'], a['cfg'], b['val']['len'], b['cfg']),
                      {'program': inc['key'], 'source': p['text'][:3000], 'first': a, 'second': b, 'signature': {'kind': 'cli-sink'}})
    chk.traces += len(obs)
    chk.notes.update({'sink_conversations': nconv, 'write_calls_replayed': ncalls_total, 'cli_observations': len(obs), 'programs': len(progs)})
    if sample_conv:
        chk.sample(sample_conv)
    chk.sample(obs[1] if len(obs) > 1 else obs[:1])
    chk.assumptions = ['TLC, Json module', 'the chunking sink of the harness honours the Write contract']
    rm(wd)
    return chk.finish()


# ------------------------------------------------------------------------------------------------ C17
import re
MNEMONICS = ['get local', 'set local', 'get global', 'set global', 'get slot', 'set slot', 'call slot', 'call', 'printf', 'label', 'goto', 'branch', 'return', 'drop', 'lit', 'object', 'array']
RE_IDX = re.compile(r'^\s*(\d+)\s*:\s?(.*)$', re.S)
RE_METHOD = re.compile(r'^method\s+#(\d+)\s+args:(\d+)\s+locals:(\d+)\s+(\d+)-(\d+|∅)$')


def lex_listing(text):
    """split a disassembly into tokens (no judgement): returns (lexed_ok, listing dict)"""
    L = {'consts': [], 'entry': -1, 'globals': [], 'code': []}
    ok = True
    section = None
    for line in text.split('\n'):
        if line.strip() == '':
            continue
        s = line.strip()
        if s == 'Constant Pool:':
            section = 'consts'
            continue
        if s == 'Globals:':
            section = 'globals'
            continue
        if s == 'Code:':
            section = 'code'
            continue
        m = re.match(r'^Entry:\s*#(\d+)$', s)
        if m:
            L['entry'] = int(m.group(1))
            continue
        m = RE_IDX.match(line)
        if not m or section is None:
            ok = False
            continue
        idx, payload = int(m.group(1)), m.group(2)
        if section == 'consts':
            p = payload.strip()
            e = {'idx': idx}
            mm = RE_METHOD.match(p)
            if len(payload) >= 2 and payload.lstrip().startswith('"') and payload.rstrip().endswith('"'):
                q = payload.strip()
                e.update(kind='str', bytes=list(q[1:-1].encode('utf-8')))
            elif re.match(r'^slot\s+#(\d+)$', p):
                e.update(kind='slot', name=int(p.split('#')[1]))
            elif mm:
                first = int(mm.group(4))
                e.update(kind='method', name=int(mm.group(1)), arity=int(mm.group(2)), locals=int(mm.group(3)), first=first,
                         last=(first - 1 if mm.group(5) == '∅' else int(mm.group(5))))
            elif re.match(r'^class(\s+#\d+(,\s*#\d+)*)?$', p):
                e.update(kind='class', members=[int(x) for x in re.findall(r'#(\d+)', p)])
            elif p == 'null':
                e.update(kind='null')
            elif p in ('true', 'false'):
                e.update(kind='bool', b=(p == 'true'))
            elif re.match(r'^-?\d+$', p) and -2**31 <= int(p) < 2**31:
                e.update(kind='int', i=int(p))
            else:
                ok = False
                continue
            L['consts'].append(e)
        elif section == 'globals':
            mm = re.match(r'^#(\d+)$', payload.strip())
            if not mm:
                ok = False
                continue
            L['globals'].append({'idx': idx, 'ref': int(mm.group(1))})
        else:
            p = payload.strip()
            mn = None
            for cand in MNEMONICS:
                if p == cand or p.startswith(cand + ' '):
                    mn = cand
                    break
            if mn is None:
                ok = False
                continue
            nums = [int(x) for x in re.findall(r'\d+', p[len(mn):])]
            rest_ok = re.match(r'^(\s+(#|::)?\d+)*$', p[len(mn):]) is not None
            if not rest_ok or len(nums) > 2:
                ok = False
                continue
            L['code'].append({'idx': idx, 'mn': mn.replace(' ', ''), 'a': nums[0] if nums else 0, 'n': nums[1] if len(nums) > 1 else 0})
    return ok, L


def c17(tier):
    chk = Check('C17', tier)
    chk.rule = ('`fml disassemble` (real CLI for a sample, the same Display rendering in-process for the rest) on all compiler outputs of the pool, on programs whose strings contain '
                'quotes, colons, hashes, commas, leading/trailing spaces, kind-word look-alikes and non-ASCII text, and on TLC-generated structural programs (MC_Format); the driver only '
                'splits the text into tokens; TLC rebuilds the program from the listing (FMLListing.FromListing), checks numbering without gaps and that every instruction lies in '
                'exactly one method range, and compares with the independent decoding of the file. distinct_nontrivial = distinct files whose listing was judged in scope.')
    exe = build('debug')
    wd = scratch('c17')
    tricky = ['"', 'a"b', '""', ': 1', '#3', 'slot #2', 'method #1 args:0 locals:0 0000-0001', 'class #1,#2', ' lead', 'trail ', '  ', 'null', 'true', '12', '-5',
              '0: "x"', 'é世', 'a,b', 'tab\there', 'a\\tb', 'a\\nb', 'ctl\x01\x02', 'nul\x00byte', 'del\x7f', 'esc\x1b[0m', 'nel\x85', 'a\\\\tb', "it's", '\\\\"', 'Entry: #0', 'Code:', '~ : ~', '//', '∅', '0000-∅']
    progs = [{'name': 'tricky:%d' % i, 'text': unparse(Top([Pr(s.replace('\\', '\\\\').replace('"', '\\"') if not s.startswith('\\\\') else s)])), 'ast': None} for i, s in enumerate(tricky)]
    progs += pool.corpus() + pool.random_programs(tier_sizes(tier, 120, 3000), base_seed=seed() * 3571 + 4) + pool.construct_family(limit=tier_sizes(tier, 80, 1500))
    outs = compile_pool(exe, progs, wd, ['listing'], 'c17')
    recs, names = [], {}
    for i, o in enumerate(outs):
        if 'bytes' not in o or 'listing' not in o:
            continue
        names[len(recs)] = progs[i]['name']
        recs.append({'bytes': o['bytes'], 'text': o['listing']})
    # the real CLI on a sample
    rng = random.Random(seed())
    for i in rng.sample(range(len(outs)), min(len(outs), tier_sizes(tier, 40, 400))):
        if 'bytes' not in outs[i]:
            continue
        f = os.path.join(wd, 'd%d.bc' % i)
        open(f, 'wb').write(bytes(outs[i]['bytes']))
        rc, so, se = sh([exe, 'disassemble', f], wd)
        names[len(recs)] = progs[i]['name'] + ' [fml disassemble]'
        recs.append({'bytes': outs[i]['bytes'], 'text': so.decode('utf-8', 'replace') if rc == 0 else '<<disassemble failed>>'})
    # large files (listing read through the buffered file reader of the real CLI)
    bigs = pool.big_programs()
    bouts = compile_pool(exe, bigs, wd, [], 'c17big')
    for i, o in enumerate(bouts):
        if 'bytes' not in o:
            continue
        f = os.path.join(wd, 'big%d.bc' % i)
        open(f, 'wb').write(bytes(o['bytes']))
        rc, so, se = sh([exe, 'disassemble', f], wd)
        names[len(recs)] = bigs[i]['name'] + ' [fml disassemble]'
        recs.append({'bytes': o['bytes'], 'text': so.decode('utf-8', 'replace') if rc == 0 else '<<disassemble failed>>'})
    # constant pools of every size 4..519 (every value of the file's first byte): the CLI's listing must be the in-process listing (FMLObservations)
    from concurrent.futures import ThreadPoolExecutor
    sw = pool.sweep_programs()
    souts = compile_pool(exe, sw, wd, ['listing'], 'c17sw')

    def sweep_one(i):
        o = souts[i]
        if 'bytes' not in o or 'listing' not in o:
            return []
        f = os.path.join(wd, 'sw%d.bc' % i)
        open(f, 'wb').write(bytes(o['bytes']))
        rc, so, se = sh([exe, 'disassemble', f], wd)
        r = [{'key': sw[i]['name'] + ' :: listing', 'val': {'ok': True, 'd': hashlib.sha1((o['listing'] + '\n').encode('utf-8')).hexdigest()}, 'cfg': 'in-process Display of the loaded program, followed by a line break (println!)'},
             {'key': sw[i]['name'] + ' :: listing', 'val': {'ok': rc == 0, 'd': hashlib.sha1(so).hexdigest()}, 'cfg': '`fml disassemble FILE`'}]
        if i % 40 == 7:
            # the file may be given in other ways than as the path of a regular file: standard input, a symbolic link, a pipe (process substitution), /dev/stdin
            ln = os.path.join(wd, 'sw%d.link' % i)
            if not os.path.exists(ln):
                os.symlink(f, ln)
            # ... and as a file without an extension that has a neighbour NAME.bc holding ANOTHER program (the file named is the file read)
            noext = os.path.join(wd, 'noext%d' % i)
            open(noext, 'wb').write(bytes(o['bytes']))
            open(noext + '.bc', 'wb').write(bytes(souts[(i + 1) % len(souts)].get('bytes', [])))
            for cfgname, cmd in (('`fml disassemble < FILE`', '"%s" disassemble < "%s"' % (exe, f)), ('`fml disassemble SYMLINK`', '"%s" disassemble "%s"' % (exe, ln)),
                                 ('`fml disassemble NAME` (no extension; NAME.bc exists and holds another program)', '"%s" disassemble "%s"' % (exe, noext)),
                                 ('`fml disassemble <(cat FILE)` (a pipe)', '"%s" disassemble <(cat "%s")' % (exe, f)), ('`cat FILE | fml disassemble /dev/stdin`', 'cat "%s" | "%s" disassemble /dev/stdin' % (f, exe))):
                pr = subprocess.run(['bash', '-c', cmd], cwd=wd, stdout=subprocess.PIPE, stderr=subprocess.PIPE, timeout=60)
                r.append({'key': sw[i]['name'] + ' :: listing', 'val': {'ok': pr.returncode == 0, 'd': hashlib.sha1(pr.stdout).hexdigest()}, 'cfg': cfgname})
        return r
    sobs = []
    with ThreadPoolExecutor(max_workers=12) as ex:
        for r in ex.map(sweep_one, range(len(sw))):
            sobs += r
    if sobs:
        spath = os.path.join(wd, 'sweepobs.ndjson')
        write_ndjson(spath, sobs)
        ro = tlc_or_die('FMLObservations', env={'OBS': spath}, workers=1, timeout=600)
        chk.add_tlc(ro)
        if not ro.lines.get('DONE'):
            raise ToolError('FMLObservations did not reach the end of the history')
        for inc in ro.lines.get('INCONSISTENT', []):
            a, b = sobs[inc['first'] - 1], sobs[inc['second'] - 1]
            chk.violation('%s differs between [%s] and [%s]' % (inc['key'], a['cfg'], b['cfg']), {'program': inc['key'], 'first': a, 'second': b, 'signature': {'kind': 'cli-listing'}})
        chk.traces += len(sobs)
        chk.notes['pool_size_sweep'] = len(sw)
    # two of them are judged in full below as well
    for i in (119, 375):
        if 'listing' in souts[i]:
            names[len(recs)] = sw[i]['name']
            recs.append({'bytes': souts[i]['bytes'], 'text': souts[i]['listing']})
    # TLC-generated structural programs
    from checks_bytecode import spec_generated_programs
    gen = spec_generated_programs(chk, wd, tier)
    xouts = run_harness(exe, 'exec', [{'id': j, 'bytes': g['bytes'], 'want': ['listing']} for j, g in enumerate(gen)], wd, tag='c17x')
    for j, o in enumerate(xouts):
        names[len(recs)] = 'spec-generated:%d' % j
        # no listing at all is a result too: TLC says whether the loader had to accept the file
        recs.append({'bytes': gen[j]['bytes'], 'text': o['listing']} if 'listing' in o else {'bytes': gen[j]['bytes'], 'text': '', 'nolisting': True})
    lrecs = []
    for k, r in enumerate(recs):
        ok, L = lex_listing(r['text'])
        lrecs.append({'id': k, 'bytes': r['bytes'], 'lexed': ok, 'listing': L, 'nolisting': bool(r.get('nolisting'))})
    counts = {}
    for b in range(0, len(lrecs), 600):
        part = lrecs[b:b + 600]
        path = os.path.join(wd, 'lists.%d.ndjson' % b)
        write_ndjson(path, part)
        rt = tlc_or_die('FMLListing', env={'LISTS': path}, workers=12, timeout=1800, tag='c17t')
        chk.add_tlc(rt)
        vs = {v['id']: v for v in rt.lines.get('VERDICT', [])}
        if len(vs) != len(part):
            raise ToolError('FMLListing: %d verdicts for %d listings' % (len(vs), len(part)))
        for rec in part:
            v = vs[rec['id']]['verdict']
            counts[v] = counts.get(v, 0) + 1
            if v == 'out-of-scope':
                continue
            chk.traces += 1
            chk.count(hashlib.sha1(bytes(rec['bytes'])).hexdigest())
            if v != 'ok':
                chk.violation('%s: listing %s' % (names[rec['id']], v),
                              {'program': names[rec['id']], 'bytes': rec['bytes'][:4000], 'listing_text': recs[rec['id']]['text'][:3000], 'verdict': v, 'signature': {'kind': 'listing', 'verdict': v}})
    chk.notes['verdict_counts'] = counts
    chk.sample({'program': names[0], 'listing_head': recs[0]['text'][:300]})
    chk.sample({'program': names[len(recs) - 1], 'listing_head': recs[-1]['text'][:200]})
    chk.assumptions = ['TLC, Json module', 'the line lexer of the driver (tolerant in whitespace, leading zeros, section order); a benign reformatting of the listing it cannot lex would be reported']
    rm(wd)
    return chk.finish()


# ------------------------------------------------------------------------------------------------ C07
EXTRA_TOKENS = [';', ')', 'end', 'begin', '(', 'let', '=', '<-', 'else', '.', '99999999999', '-', 'this', 'print', 'function', '+', 'then', ',', '[', ']', 'object', 'extends', '->', 'null', '"s"', 'array', 'while', 'do', '-1', 'if']


# lexical and grammatical edge texts (judged from their code points by FMLLexer + FMLParser; most are NOT programs)
EDGE_SNIPPETS = [
    # identifiers that begin or end like keywords / literals; keywords glued to digits and underscores
    'iffy', 'endx', 'xend', 'nullable', 'truex', 'falsey', 'printx', 'array1', 'object_', 'thisx', 'this', 'letx', 'beginx', 'dox', 'whiley', 'thenx', 'elsex', 'functionx', 'extendsx',
    '_', '__', '_1', 'a1b2', 'A', 'Z_9', 'null1', 'true_', 'if1', 'end_', 'If', 'NULL', 'True',
    # letters and digits outside ASCII are not identifier characters, wherever they stand
    'gr\u00f6\u00dfe', 'total\u00e9', '\u00e9tat', 'x\u0663', 'a\u043e', 'na\u00efve', 'e\u0301', 'x\u00b2', 'caf\u00e9()', 'o.caf\u00e9', 'let gr\u00f6\u00dfe = 1', 'function gr\u00fc\u00df() -> 1', 'a_\u4e16', '\u4e16', 'x\u200d',
    # numbers and the minus sign
    '0', '-0', '00', '007', '-007', '2147483647', '2147483648', '-2147483648', '-2147483649', '99999999999999999999', '1-1', '1 -1', '1 - 1', '1- 1', 'a-1', 'a -1', 'a - 1', '- 1', '-a', '- a',
    '--1', '1--1', '1 - -1', 'a<-1', 'a< -1', 'a <- 1', 'a<--1', 'a<=-1', 'a==-1', 'a!=-1', 'a>=-1', 'a>-1', 'a->b', 'f(-1)', 'a[-1]', 'a[0]-1', 'a.b-1', '1.2', '1 . 2', '1e3', '0x10', '1_000', '1a', '1 a',
    # operators and punctuation
    'a=b', 'a==b', 'a===b', 'a<==b', 'a!b', 'a!=b', 'a!==b', 'a|b', 'a||b', 'a&b', 'a&&b', 'a<b<c', 'a<=b', 'a=<b', 'a<>b', 'a><b', 'a%b', 'a%%b', 'a**b', 'a//b', 'a/ /b', 'a/b/c', 'a+', '+a', 'a+*b', '(a', 'a)', '()', '(())', '((a))', 'a b', 'a;', ';a', 'a;;b', ';', ';;',
    # strings
    '""', '"a"', '"\\n\\t\\r\\\\\\"~"', '"\\a"', '"\\"', '"\\', '"', '"a', 'a"', '"a""b"', '"a" "b"', '"/* not a comment */"', '"// not a comment"', "'a'", '"é世😀"', '"\\~"', '"~"',
    # comments
    '#!/usr/bin/env fml\n1', '#! x\nprint("a")', '#!\n', '#!', '# 1', '1 #!', '/**/', '/***/', '/*/', '/* /* */ */', '/* a */ 1 /* b */', '1 // c', '1 // c\n', '// c', '/* unterminated', '*/', '/ * a * /', '1 /* \n */ + /* // */ 2', '1 // /* \n + 2 // */', '/*é*/1', '1/**/2', '1/**/+/**/2',
    # blocks, objects, arrays, functions, control
    'begin end', 'begin ; end', 'begin 1 end', 'begin 1; end', 'begin 1;; end', 'begin 1; 2 end', 'beginend', 'begin 1 end end', 'begin begin end', 'object begin end', 'object begin ; end', 'object extends a begin end',
    'object extends a begin let b = 1 end', 'object begin let b = 1; end', 'object begin let b = 1; function m() -> 1 end', 'object begin function m() -> 1; let b = 1; end', 'object begin 1 end', 'object begin b <- 1 end',
    'object extends begin end', 'object extends a b begin end', 'object begin function +(o) -> 1; function ==(o) -> 2; function <=(o) -> 3 end', 'object begin function get(i) -> 1; function set(i, v) -> 2 end',
    'array(1, 2)', 'array(1)', 'array(1, 2, 3)', 'array()', 'array (1, 2)', 'array(1, 2,)', 'array 1', 'function f() -> 1', 'function f(a) -> a', 'function f(a,) -> a', 'function f(a b) -> a', 'function f(a, a) -> a',
    'function f -> 1', 'function () -> 1', 'function f() 1', 'function f() -> ', 'function +(a) -> a', 'function f() -> function g() -> 1', 'let f = function g() -> 1', 'f()', 'f(1)', 'f(1,)', 'f(,1)', 'f(1 2)', 'f (1)', 'f()()', 'a.f()', 'a.f', 'a.f.g', 'a.f().g', 'a.f()()', 'a.+(1)', 'a.==(1)', 'a.<-(1)',
    'a.1', 'a.', '.a', 'a..b', 'a[1]', 'a[1][2]', 'a[]', 'a[1,2]', 'a[1] <- 2', 'a.b <- 2', 'a.b.c <- 2', 'a.f() <- 2', 'a[1].b <- 2', 'a.b[1] <- 2', '1 <- 2', 'a <- b <- 1', 'a + b <- 1', 'f() <- 1',
    'let a = 1', 'let a', 'let = 1', 'let a = ', 'let a = let b = 1', 'let a = b <- 1', 'let 1 = 1', 'let if = 1', 'let this = 1', 'let a = 1 + let b = 2', 'let a <- 1',
    'if a then b', 'if a then b else c', 'if a then if b then c else d', 'if a b', 'if a then', 'if then b', 'if a then b else', 'if a then b else c else d', 'if a then b; c', 'if (a) then (b) else (c)', 'ifathenb',
    'while a do b', 'while a b', 'while do b', 'while a do', 'while a do b; c', 'while a do begin b; c end', 'while a do while b do c', 'while a do let b = 1', 'while a do if b then c',
    'print("a")', 'print("~", 1)', 'print("~" 1)', 'print("~", 1,)', 'print()', 'print(1)', 'print(a, 1)', 'print "a"', 'print("a", )', 'print ("a")', 'print("a")("b")', 'print("a").b', 'let p = print("a")',
    # forms that end in an open construct (a one-armed if, a let, an assignment, a loop) directly in every operand slot
    'array(5, if c then i)', 'array(if t then 2, 0)', 'array(2, let v = if c then 1)', 'array(let n = 2, 0)', 'array(while c do 1, 0)', 'array(2, while c do 1)', 'array(a <- 1, b <- 2)', 'array(2, x <- if c then 1)',
    'f(if c then 1)', 'f(if c then 1, 2)', 'f(1, if c then 2)', 'f(let a = 1, a)', 'f(a <- 1)', 'f(while c do 1)', 'o.m(if c then 1)', 'o.m(if c then 1, 2)', 'a[if c then 1]', 'a[let i = 0]', 'a[i <- 0]',
    'a[if c then 1] <- 2', 'a[0] <- if c then 1', 'o.f <- if c then 1', 'x <- if c then 1', 'let v = if c then 1', 'print("~", if c then 1)', 'print("~ ~", if c then 1, 2)', '(if c then 1)', '(if c then 1) + 2',
    'if c then 1 + 2', '1 + if c then 2', 'if c then 1 else if d then 2', 'if if a then b then c', 'if a then b else c + 1', 'while if a then b do c', 'object extends if c then a begin end', 'object begin let f = if c then 1 end',
    'object begin function +(o) -> if c then 1 end', 'object begin function ==(o) -> if c then 1; let g = 2 end', 'object begin function <=(o) -> while c do if d then 1 end', 'object begin function *(o) -> x <- if c then 1 end',
    'object begin function +(o) -> let v = if c then 1 end', 'object begin function %(o) -> if a then 1 else if b then 2 end', 'object begin function &(o) -> if c then 1; function |(o) -> if d then 2 end',
    'object begin let f = if c then 1; let g = 2 end', 'object begin function m() -> if c then 1 end', 'object begin function m() -> if c then 1; let g = 2 end', 'function f() -> if c then 1', 'function f() -> if c then 1; 2',
    'begin if c then 1 end', 'begin if c then 1; 2 end', 'begin let v = if c then 1; v end', 'while c do if d then 1', 'while c do if d then 1; 2', 'while c do x <- if d then 1',
    'null', 'true', 'false', 'null.f()', 'true & false', 'null == null', 'null(1)', 'true.b', '1.f()', '1.+(2)', '(1).+(2)', '1 .f()', '"a".b',
]
EDGE_CONTEXTS = ['%s', 'let v = %s', 'print("~\\n", %s)', '%s; 1', 'begin %s end', 'f(%s)', '(%s)', 'if true then %s else 0']


def edge_texts(rng, n_cases):
    n = n_cases
    cases = [('edge-text:%d:%d' % (i, j), c % s) for i, s in enumerate(EDGE_SNIPPETS) for j, c in enumerate(EDGE_CONTEXTS)]
    rng.shuffle(cases)
    alone = [('edge-text:%d:alone' % i, s) for i, s in enumerate(EDGE_SNIPPETS)]
    # long runs of one operator and of one precedence level (left-associative however long), and long postfix / call chains
    chains = []
    ops = ['+', '-', '*', '/', '%', '<', '<=', '>', '>=', '==', '!=', '&', '|']
    for n in (2, 3, 9, 31, 32, 33, 40, 64, 100):
        for op in (ops if n in (32, 33) else rng.sample(ops, 3)):
            chains.append(('chain:%s x%d' % (op, n), (' %s ' % op).join('v%d' % k for k in range(n))))
        chains.append(('chain:mixed-additive x%d' % n, ''.join(('v%d' % k) + (' + ' if k % 3 else ' - ') for k in range(n)) + '1'))
        chains.append(('chain:mixed-multiplicative x%d' % n, ''.join(('v%d' % k) + (' * ' if k % 2 else ' / ') for k in range(n)) + '1'))
        chains.append(('chain:fields x%d' % n, 'o' + ''.join('.f%d' % k for k in range(n))))
        chains.append(('chain:calls x%d' % n, 'o' + ''.join('.m(%d)' % k for k in range(n))))
        chains.append(('chain:indices x%d' % n, 'a' + ''.join('[%d]' % k for k in range(n))))
        chains.append(('chain:else-if x%d' % n, ' else '.join('if c%d then %d' % (k, k) for k in range(n)) + ' else 0'))
        chains.append(('chain:statements x%d' % n, '; '.join('s%d' % k for k in range(n))))
        chains.append(('chain:arguments x%d' % n, 'f(' + ', '.join('%d' % k for k in range(n)) + ')'))
    return alone + chains + cases[:n]


def mutate_token_list(toks, rng):
    t = list(toks)
    if not t:
        return t
    for _ in range(1 if rng.random() < 0.8 else 2):
        i = rng.randrange(len(t))
        c = rng.random()
        if c < 0.3 and len(t) > 1:
            del t[i]
        elif c < 0.5:
            t.insert(i, t[i])
        elif c < 0.7 and i + 1 < len(t):
            t[i], t[i + 1] = t[i + 1], t[i]
        else:
            t[i] = rng.choice(t + EXTRA_TOKENS)
    return t


def c07(tier):
    chk = Check('C07', tier)
    chk.rule = ('spec->impl: TLC enumerates (MC_Syntax) all 13^3 operator triples, all operator pairs with one operand replaced by each of 9 operand forms at each position, all '
                'unparenthesised if/then/else texts to depth 3, and postfix chains (read and assigned); the tree is prescribed by FMLSyntax (precedence climbing, nearest-if, left '
                'nesting). impl->spec: seeded random ASTs in the parser range and the ASTs the parser produced for the in-repo corpus are printed back minimally, fully parenthesised '
                'and with whitespace / line-comment / block-comment (UTF-8) decorations at token boundaries, and parsed again. TLC (TraceParse) compares the trees and checks '
                'InParserRange. Arbitrary token sequences (valid programs and 4 token-level mutations of each): the TLA+ grammar FMLParser (recursive descent over the whole language) says which '
                'are programs and which tree they denote, the real parser must accept exactly those and return that tree (TraceParseTokens). Arbitrary text (corpus files, decorated and tightly spaced printings, character-level mutations) '
                'is judged the same way from its code points alone by the TLA+ lexer + grammar (FMLLexer.ParseText, TraceParseText), as are some 300 lexical/grammatical edge snippets (keyword-like identifiers, minus signs, comment and string corner cases, trailing separators, malformed forms) in 8 contexts. distinct_nontrivial = distinct source texts parsed and judged.')
    exe = build('debug')
    wd = scratch('c07')
    r = tlc_or_die('MC_Syntax', workers=8, timeout=1800)
    chk.add_tlc(r)
    gen = r.lines.get('REPLAY', [])
    kinds = {}
    cases = []          # (name, text, expected ast)
    for g in gen:
        kinds[g['kind']] = kinds.get(g['kind'], 0) + 1
        cases.append(('syntax:%s:%s' % (g['kind'], ' '.join(g['toks'])), ' '.join(g['toks']), g['ast']))
    chk.notes['spec_generated_cases'] = kinds
    rng = random.Random(seed())
    # decorated copies of a sample of the spec-generated texts
    for g in rng.sample(gen, min(len(gen), tier_sizes(tier, 300, 3000))):
        from unparse import join
        cases.append(('syntax-decorated:%s' % ' '.join(g['toks']), join(g['toks'], rng, 0.6), g['ast']))
    # random ASTs and corpus ASTs, three printings each
    base = pool.random_programs(tier_sizes(tier, 250, 8000), base_seed=seed() * 7121 + 6, size=35)
    corp = pool.corpus()
    couts = run_harness(exe, 'run', [{'id': i, 'text': p['text'], 'want': ['ast', 'parseonly']} for i, p in enumerate(corp)], wd, tag='c07c')
    asts = [(p['name'], p['ast']) for p in base] + [(corp[i]['name'], o['ast']) for i, o in enumerate(couts) if o.get('parse') == 'ok' and 'ast' in o]
    import copy
    for name, ast in asts:
        for mode in ('min', 'full', 'decorated', 'dotted'):
            a = copy.deepcopy(ast)
            if mode == 'min':
                text = unparse(a, elseless=(rng.random() < 0.5))
            elif mode == 'full':
                text = unparse(a, full=True)
            elif mode == 'decorated':
                text = unparse(a, rng=rng, decorate=0.5, full=(rng.random() < 0.3))
            else:
                text = unparse(a, infix=False)          # operators written as method calls  a.+(b)
            cases.append(('%s [%s]' % (name, mode), text, strip_marks(ast)))
    recs = [{'id': i, 'text': c[1], 'want': ['ast', 'parseonly']} for i, c in enumerate(cases)]
    outs = run_harness(exe, 'run', recs, wd, tag='c07p', jobs=16)
    pairs = []
    for i, o in enumerate(outs):
        st = 'panic' if o.get('crash') is not None else o.get('parse', 'panic')
        pairs.append({'id': i, 'expected': cases[i][2], 'parsed': o.get('ast', {'t': 'none'}), 'status': st})
        chk.count(hashlib.sha1(cases[i][1].encode()).hexdigest())
    counts = {}
    for b in range(0, len(pairs), 4000):
        part = pairs[b:b + 4000]
        path = os.path.join(wd, 'pairs.%d.ndjson' % b)
        write_ndjson(path, part)
        rt = tlc_or_die('TraceParse', env={'PAIRS': path}, workers=12, timeout=1800, tag='c07t')
        chk.add_tlc(rt)
        vs = {v['id']: v for v in rt.lines.get('VERDICT', [])}
        if len(vs) != len(part):
            raise ToolError('TraceParse: %d verdicts for %d pairs' % (len(vs), len(part)))
        for rec in part:
            v = vs[rec['id']]['verdict']
            counts[v] = counts.get(v, 0) + 1
            chk.traces += 1
            if v == 'expected-tree-outside-parser-range' and not cases[rec['id']][0].startswith('corpus:'):
                raise ToolError('C07: a generated tree is outside InParserRange: %s' % cases[rec['id']][0])
            # (for corpus texts the expected tree is what the parser itself produced: a tree outside the documented range is a finding)
            if v != 'ok':
                name, text, exp = cases[rec['id']]
                chk.violation('%s: %s' % (name[:160], v), {'case': name, 'source': text[:3000], 'expected_ast': exp if len(json.dumps(exp)) < 6000 else 'large',
                                                      'parsed_ast': rec['parsed'] if len(json.dumps(rec['parsed'])) < 6000 else 'large',
                                                      'parse_msg': outs[rec['id']].get('parse_msg', '')[:300], 'signature': {'kind': 'parse', 'verdict': v}})
    # arbitrary token sequences: the TLA+ grammar FMLParser says which are programs (and which tree); the real parser must agree
    from unparse import tokens_of, classify
    tcases = []
    for name, ast in asts[:tier_sizes(tier, 300, 6000)]:
        toks = tokens_of(copy.deepcopy(ast), full=(rng.random() < 0.2), elseless=(rng.random() < 0.7))
        tcases.append(('tokens:' + name, toks))
        for _ in range(4):
            t2 = mutate_token_list(toks, rng)
            tcases.append(('tokens-mutated:' + name, t2))
    touts = run_harness(exe, 'run', [{'id': i, 'text': ' '.join(c[1]), 'want': ['ast', 'parseonly']} for i, c in enumerate(tcases)], wd, tag='c07k', jobs=16)
    trecs = []
    for i, o in enumerate(touts):
        cl = [classify(x) for x in tcases[i][1]]
        if any(c is None for c in cl):
            continue
        trecs.append({'id': i, 'toks': cl, 'status': 'panic' if o.get('crash') is not None else o.get('parse', 'panic'), 'parsed': o.get('ast', {'t': 'none'})})
        chk.count(hashlib.sha1(' '.join(tcases[i][1]).encode()).hexdigest())
    tcounts = {}
    for b in range(0, len(trecs), 5000):
        part = trecs[b:b + 5000]
        tpath = os.path.join(wd, 'toks.%d.ndjson' % b)
        write_ndjson(tpath, part)
        rk = tlc_or_die('TraceParseTokens', env={'TOKS': tpath}, workers=12, timeout=1800, tag='c07k')
        chk.add_tlc(rk)
        kv = {v['id']: v for v in rk.lines.get('VERDICT', [])}
        if len(kv) != len(part):
            raise ToolError('TraceParseTokens: %d verdicts for %d token sequences' % (len(kv), len(part)))
        for rec in part:
            v = kv[rec['id']]['verdict']
            tcounts[v] = tcounts.get(v, 0) + 1
            chk.traces += 1
            if v not in ('accepted', 'rejected'):
                name, toks = tcases[rec['id']]
                chk.violation('%s: %s' % (name[:120], v), {'case': name, 'source': ' '.join(toks)[:3000], 'verdict': v, 'parse_msg': touts[rec['id']].get('parse_msg', '')[:300],
                                                      'signature': {'kind': 'grammar', 'verdict': v}})
    chk.notes['token_sequences_judged_by_the_TLA_grammar'] = tcounts
    # arbitrary TEXT: the TLA+ lexer + grammar (FMLLexer.ParseText) decide from the code points alone; corpus files, decorated and tightly spaced
    # printings, and character-level mutations (stray quotes, backslashes, comment openers, non-ASCII characters, deleted / swapped characters)
    import re as _re
    xcases = [(p['name'], p['text']) for p in corp] + edge_texts(rng, tier_sizes(tier, 400, 100000))
    for name, ast in asts[:tier_sizes(tier, 200, 4000)]:
        a = copy.deepcopy(ast)
        xcases.append(('decorated-text:' + name, unparse(a, rng=rng, decorate=0.6, full=(rng.random() < 0.3))))
        tk = tokens_of(copy.deepcopy(ast))
        tight = ''.join(x if i == 0 or not (_re.match(r'[_A-Za-z0-9"-]', x[0]) and _re.match(r'[_A-Za-z0-9"]', tk[i - 1][-1])) else ' ' + x for i, x in enumerate(tk))
        xcases.append(('tight-text:' + name, tight))
        s0 = unparse(copy.deepcopy(ast))
        for _ in range(2):
            i = rng.randrange(len(s0))
            c = rng.random()
            if c < 0.3:
                s2 = s0[:i] + s0[i + 1:]
            elif c < 0.65:
                s2 = s0[:i] + rng.choice(['"', '\\', '/*', '*/', '//', '!', '-', '<', '=', '#', '\n', '\t', 'é', '1', 'x', '.', '@', '**/', '/**', '\u00a0', '\u2028', '0', '_']) + s0[i:]
            else:
                s2 = s0[:i] + s0[i + 1:i + 2] + s0[i:i + 1] + s0[i + 2:]
            xcases.append(('char-mutated-text:' + name, s2))
    xouts = run_harness(exe, 'run', [{'id': i, 'text': c[1], 'want': ['ast', 'parseonly']} for i, c in enumerate(xcases)], wd, tag='c07x', jobs=16)
    xrecs = []
    for i, o in enumerate(xouts):
        words = sorted(set(_re.findall(r'[_A-Za-z][_A-Za-z0-9]*', xcases[i][1])))
        xrecs.append({'id': i, 'cps': [ord(ch) for ch in xcases[i][1]], 'names': [{'s': w, 'b': [ord(ch) for ch in w]} for w in words],
                      'status': 'panic' if o.get('crash') is not None else o.get('parse', 'panic'), 'parsed': o.get('ast', {'t': 'none'})})
        chk.count(hashlib.sha1(xcases[i][1].encode()).hexdigest())
    xcounts = {}
    for b in range(0, len(xrecs), 2500):
        part = xrecs[b:b + 2500]
        xpath = os.path.join(wd, 'texts.%d.ndjson' % b)
        write_ndjson(xpath, part)
        rx = tlc_or_die('TraceParseText', env={'TEXTS': xpath}, workers=12, timeout=1800, tag='c07x')
        chk.add_tlc(rx)
        xv = {v['id']: v for v in rx.lines.get('VERDICT', [])}
        if len(xv) != len(part):
            raise ToolError('TraceParseText: %d verdicts for %d texts' % (len(xv), len(part)))
        for rec in part:
            v = xv[rec['id']]['verdict']
            xcounts[v] = xcounts.get(v, 0) + 1
            chk.traces += 1
            if v not in ('accepted', 'rejected'):
                name, text = xcases[rec['id']]
                chk.violation('%s: %s' % (name[:120], v), {'case': name, 'source': text[:3000], 'verdict': v, 'parse_msg': xouts[rec['id']].get('parse_msg', '')[:300],
                                                      'signature': {'kind': 'front-end', 'verdict': v}})
    chk.notes['texts_judged_by_the_TLA_lexer_and_grammar'] = xcounts
    chk.notes['verdict_counts'] = counts
    chk.notes['round_trip_texts'] = len(asts) * 4
    chk.exhaustive = True
    chk.notes['exhaustive_scope'] = 'operator triples, operand-form pairs, if/else texts to depth 3 and postfix chains are enumerated completely; the AST round trip is sampled'
    for k in (5, len(gen) // 2, len(cases) - 2):
        chk.sample({'case': cases[k][0][:120], 'text': cases[k][1][:240]})
    chk.assumptions = ['TLC, Json module', 'AST projection norm.rs', 'the Python unparser only produces inputs; the expected tree is the AST it was given']
    rm(wd)
    return chk.finish()


# ------------------------------------------------------------------------------------------------ C06
NASTY_STRINGS = [
    'plain', '', ' ', '  lead and trail  ', 'a: b', '- item', '# not a comment', 'key: [1, 2]', '{a: 1}', '| block', '> folded', "it's", 'say \\"hi\\"', '& anchor *alias', '!tag', '%dir', '@at `tick`',
    'null', 'true', 'yes', 'no', '~', '1e3', '0x10', '012', '.inf', '-', '--- ', '...', '? q', ',', 'a,b', '(paren)', '(', ')', ';semi', "'quote", '#t', '#\\\\a', '|sym|', 'a\\\\\\\\b', '\\\\n literal backslash-n then real:\n',
    'tab\there', 'cr\rhere', 'crlf\r\nhere', 'bell\x07', 'esc\x1b[0m', 'nul\x00byte', 'del\x7f', 'nel\x85', 'ls ps ', '﻿bom', 'é世', '\U0001F600 astral \U0001F44D\U0001F3FD', 'RTL ‮ abc',
    'line1\nline2\n\nline4', 'trailing newline\n', '\n leading newline', 'x' * 300, '~ ~ \\~ \\t \\r \\n \\\\ \\"', '<tag attr=\\"v\\">&amp;</tag>', '$VAR ${x} %s %d', 'a' + '\t' * 5 + 'b', ': ', ' #', "''", '""'.replace('"', '\\"'),
]


# every format-significant token alone, leading, trailing and in the middle of an otherwise plain string (and before a line break)
MARKERS = ['---', '...', '-', '?', ':', '#', '|', '>', '&a', '*a', '!', '!!str', '%', '@', '`', "'", '\\"', '{', '}', '[', ']', ',', '(', ')', ';', '.', '\\\\', '=', '<<', '~']
MARKER_STRINGS = [t % m for m in MARKERS for t in ('%s', '%s tail', 'head %s', 'head %s tail', 'head %s\\n', 'head %s\ntail')]


def nasty_program(s, i):
    # the string is the format of a print that has no placeholders unless it contains ~ (then arguments are supplied)
    n = 0
    esc = False
    for ch in s:
        if esc:
            esc = False
        elif ch == '\\':
            esc = True
        elif ch == '~':
            n += 1
    return Top([Let('v%d' % i, I(i)), {'t': 'Print', 'f': list(s.encode('utf-8')), 'args': [I(k) for k in range(n)]}, Pr('|\\n')])


def depth_program(kind, d):
    if kind == 'block':
        return 'begin ' * d + 'print("b\\n")' + ' end' * d
    if kind == 'op':
        return 'print("~\\n", ' + '1 + (' * d + '1' + ')' * d + ')'
    if kind == 'if':
        return 'print("~\\n", ' + 'if true then ' * d + '1' + ' else 0' * d + ')'
    if kind == 'call':
        return 'function f(a) -> a + 1; print("~\\n", ' + 'f(' * d + '0' + ')' * d + ')'
    if kind == 'object':
        return 'print("~\\n", ' + 'object extends ' * d + 'null' + ' begin let a = 1 end' * d + ')'
    return 'print("~\\n", ' + 'array(1, ' * d + '0' + ')' * d + ')'


def artifact_depth(text, fmt):
    """nesting depth of a serialized AST: brackets for JSON, parentheses for LISP (strings skipped)"""
    opens, closes = ('[{', ']}') if fmt == 'json' else ('(', ')')
    d = m = 0
    ins = esc = False
    for ch in text:
        if ins:
            if esc:
                esc = False
            elif ch == '\\':
                esc = True
            elif ch == '"':
                ins = False
        elif ch == '"':
            ins = True
        elif ch in opens:
            d += 1
            m = max(m, d)
        elif ch in closes:
            d -= 1
    return m


def yaml_depth(json_text):
    """nesting of sequences and struct-variant mappings in the serde representation of an AST (what serde_yaml's recursion
    counter counts; the single-key mapping that tags an enum variant is not a level), computed from the JSON form"""
    import sys
    sys.setrecursionlimit(20000)
    try:
        node = json.loads(json_text)
    except Exception:
        return -1

    def dn(n):
        if isinstance(n, dict) and len(n) == 1:
            v = list(n.values())[0]
            if isinstance(v, dict):
                return 1 + max([df(x) for x in v.values()] or [0])
            if isinstance(v, list):
                return 1 + max([dn(x) for x in v] or [0])
            return 0
        return 0

    def df(x):
        if isinstance(x, list):
            return 1 + max([dn(y) for y in x] or [0])
        return dn(x)
    return dn(node)


# the AST deserializers have a fixed recursion limit (known finding D6); measured on the pinned tree:
# serde_json refuses bracket depth >= 128, serde-lexpr parenthesis depth >= 128, serde_yaml more than 128 nested sequences / struct mappings
DEPTH_LIMIT = {'json': ('json', 128), 'lisp': ('lisp', 128), 'yaml': ('json', 129)}


def run_stage(exe, wd, args, stdin_path=None, capture_to=None):
    stdin = open(os.path.join(wd, stdin_path), 'rb') if stdin_path else subprocess.DEVNULL
    try:
        p = subprocess.run([exe] + args, cwd=wd, stdin=stdin, stdout=subprocess.PIPE, stderr=subprocess.PIPE, timeout=60)
    except subprocess.TimeoutExpired:
        return 124, b'', b'timeout'
    finally:
        if stdin_path:
            stdin.close()
    if capture_to:
        open(os.path.join(wd, capture_to), 'wb').write(p.stdout)
    return p.returncode, p.stdout, p.stderr


def replay_path(exe, root, pi, path, text, decoy=None):
    """replay one configuration path of FMLPipeline on the real binary in its own directory; returns observation dict.
    With a decoy, the same path is first run with a longer, different program, so that every artifact the path writes already exists
    (re-staging an edited program into the same files, as the wrapper script does)."""
    wd = os.path.join(root, 'w%d' % pi)
    for d in ('a', 'b', 'd', 'e'):
        os.makedirs(os.path.join(wd, d), exist_ok=True)
    if decoy is not None:
        replay_path(exe, root, pi, path, decoy)
    P, C, E = path['parse'], path['compile'], path['execute']
    open(os.path.join(wd, P['src']), 'w', encoding='utf-8').write(text)
    args = ['parse'] + ([P['src']] if P['in'] == 'file' else []) + (['--format', P['named']] if P['explicit'] else [])
    args += {'file': ['-o', 'a/tree.' + P['fmt']], 'fileneutral': ['-o', 'a/tree.out'], 'filewrong': ['-o', path['ast']['path']], 'dir': ['-o', 'd'], 'stdout': []}[P['out']]
    rc, so, se = run_stage(exe, wd, args, stdin_path=(P['src'] if P['in'] == 'stdin' else None), capture_to=('a/captured.txt' if P['out'] == 'stdout' else None))
    obs = {'stages': [('parse', rc)], 'stderr': se}
    if rc != 0 or not os.path.exists(os.path.join(wd, path['ast']['path'])):
        obs['failed'] = 'parse' if rc != 0 else 'parse-artifact-missing'
        return obs
    args = ['compile'] + ([path['ast']['path']] if C['in'] == 'file' else []) + (['--input-format', C['named']] if C['explicit'] else [])
    args += {'file': ['-o', 'b/code.bc'], 'dir': ['-o', 'e'], 'stdout': []}[C['out']]
    rc, so, se = run_stage(exe, wd, args, stdin_path=(path['ast']['path'] if C['in'] == 'stdin' else None), capture_to=('b/captured.bin' if C['out'] == 'stdout' else None))
    obs['stages'].append(('compile', rc))
    obs['stderr'] = se
    bcp = os.path.join(wd, path['bc']['path'])
    if rc != 0 or not os.path.exists(bcp):
        obs['failed'] = 'compile' if rc != 0 else 'compile-artifact-missing'
        return obs
    obs['bc'] = open(bcp, 'rb').read()
    args = ['execute'] + ([path['bc']['path']] if E['in'] == 'file' else [])
    rc, so, se = run_stage(exe, wd, args, stdin_path=(path['bc']['path'] if E['in'] == 'stdin' else None))
    obs['stages'].append(('execute', rc))
    obs['exit'] = rc
    obs['stdout'] = so
    obs['stderr'] = se
    return obs


def c06(tier):
    chk = Check('C06', tier)
    chk.rule = ('TLC explores the stage machine FMLPipeline and prints every complete configuration path (source name plain | with further dots, input file|stdin, -o file|file with a neutral or lying extension|dir|stdout, format inferred | named in lower or upper case, x json|lisp|yaml; '
                '2646 paths, artifact names predicted by the model); each path is replayed with real subprocesses for payload programs (corpus programs, format strings over control '
                'characters / YAML-, S-expression-, JSON-significant text / astral and BOM code points, AST nesting depth 1..400 in six shapes) and compared with `fml run` (file and stdin) and '
                'the repository wrapper script by FMLObservations (exit status + stdout; compiled bytes vs the in-process compiler); AST identity per format is checked in-process on every '
                'payload and on seeded random ASTs and judged by TraceParse. distinct_nontrivial = distinct (payload, path) replays + distinct (AST, format) reloads.')
    exe = build('debug')
    wd = scratch('c06')
    r = tlc_or_die('FMLPipeline', workers=4, timeout=600)
    chk.add_tlc(r)
    paths = r.lines.get('REPLAY', [])
    paths.sort(key=lambda p: json.dumps(p, sort_keys=True))
    chk.notes['configuration_paths'] = len(paths)
    rng = random.Random(seed())
    # ---- payloads
    payloads = []
    corp = [p for p in pool.corpus() if 'brainfuck' not in p['name']]
    for p in rng.sample(corp, min(len(corp), tier_sizes(tier, 3, 30))):
        payloads.append({'name': p['name'], 'text': p['text'], 'ast': None, 'paths': 'some'})
    for i, s in enumerate(NASTY_STRINGS):
        ast = nasty_program(s, i)
        payloads.append({'name': 'string:%d:%r' % (i, s[:24]), 'text': unparse(ast), 'ast': ast, 'paths': 'few'})
    for i, s in enumerate(MARKER_STRINGS):
        ast = nasty_program(s, 1000 + i)
        payloads.append({'name': 'marker:%d:%r' % (i, s[:24]), 'text': unparse(ast), 'ast': ast, 'paths': 'formats' if tier != 'thorough' else 'few'})
    depths = [1, 2, 10, 40, 41, 42, 61, 62, 63, 64, 100, 125, 126, 127, 128, 129, 200, 400] if tier == 'thorough' else [1, 30, 62, 63, 126, 128, 400]
    for kind in ('block', 'op', 'if', 'call', 'object', 'array'):
        for d in depths:
            payloads.append({'name': 'depth:%s:%d' % (kind, d), 'text': depth_program(kind, d), 'ast': None, 'paths': 'formats', 'depth': d})
    payloads.append({'name': 'corpus:examples/brainfuck.fml', 'text': [p for p in pool.corpus() if 'brainfuck' in p['name']][0]['text'], 'ast': None, 'paths': 'formats'})
    payloads.append({'name': 'big:300-prints', 'text': '; '.join('print("line %d of a program whose image is larger than the reader buffers: ~\\n", %d)' % (i, i) for i in range(300)), 'ast': None, 'paths': 'formats'})
    payloads.append({'name': 'big:long-strings', 'text': '; '.join('print("%s\\n")' % (chr(97 + i % 26) * (3000 + 37 * i)) for i in range(8)), 'ast': None, 'paths': 'formats'})
    payloads.append({'name': 'edge:only-function-definitions', 'text': 'function f(a) -> a + 1; function g() -> f(1)', 'ast': None, 'paths': 'some'})
    # empty and blank programs through files AND pipes; names that are words of the language elsewhere (print is a keyword, yet a legal method name; get / set / this / array-like names)
    payloads.append({'name': 'edge:empty-program', 'text': '', 'ast': None, 'paths': 'few'})
    payloads.append({'name': 'edge:blank-program', 'text': ' \n\t\n', 'ast': None, 'paths': 'few'})
    payloads.append({'name': 'edge:comment-only', 'text': '/* nothing */ // at all\n', 'ast': None, 'paths': 'few'})
    payloads.append({'name': 'edge:method-named-print', 'text': 'let o = object begin function print(x) -> x + 1; function get(i) -> i; function set(i, v) -> v end; print("~ ~ ~\\n", o.print(1), o[2], o[3] <- 4)', 'ast': None, 'paths': 'few'})
    payloads.append({'name': 'edge:names-like-words-of-the-language', 'text': 'let arrays = 1; let iff = 2; let ends = 3; let nulls = 4; let thiss = 5; let printer = 6; let _ = 7; let object_ = object begin let begins = 8; function whiles(dos) -> dos + this.begins end; '
                     'function lets(thens, elses) -> thens - elses; print("~ ~ ~ ~ ~ ~ ~ ~ ~\\n", arrays, iff, ends, nulls, thiss, printer, _, object_.whiles(1), lets(9, 1))', 'ast': None, 'paths': 'few'})
    payloads.insert(0, {'name': 'all-paths:mixed', 'text': 'function f(a) -> a * 2; let o = object begin let x = 1; function m(k) -> this.x + k end; let a = array(3, f(2)); print("é~ ~ ~\\n", o.m(1), a, f(5)); a[5]', 'ast': None, 'paths': 'all'})
    payloads.insert(1, {'name': 'all-paths:hello', 'text': 'print("Hello: \\"world\\" #1\\n")', 'ast': None, 'paths': 'all' if tier == 'thorough' else 'some'})
    # representative paths per format (one straightforward path per format + the stdin/dir/stdout corners)
    def pick(pred):
        return [p for p in paths if pred(p)]
    per_format = [pick(lambda p, f=f: p['parse']['fmt'] == f and p['parse']['out'] == 'file' and p['parse']['explicit'] and p['compile']['in'] == 'file' and not p['compile']['explicit']
                       and p['compile']['out'] == 'file' and p['execute']['in'] == 'file' and p['parse']['in'] == 'file')[0] for f in ('json', 'lisp', 'yaml')]
    # ... the same through pipes only (stdout of one stage is stdin of the next), and through -o DIRECTORY
    per_format_pipe = [pick(lambda p, f=f: p['parse']['fmt'] == f and p['parse']['out'] == 'stdout' and p['parse']['named'] == f and p['compile']['in'] == 'stdin' and p['compile']['named'] == f
                            and p['compile']['out'] == 'stdout' and p['execute']['in'] == 'stdin' and p['parse']['in'] == 'stdin')[0] for f in ('json', 'lisp', 'yaml')]
    per_format_dir = [pick(lambda p, f=f: p['parse']['fmt'] == f and p['parse']['out'] == 'dir' and p['parse']['named'] == f.upper() and p['compile']['in'] == 'file' and not p['compile']['explicit']
                           and p['compile']['out'] == 'dir' and p['execute']['in'] == 'file' and p['parse']['in'] == 'file' and p['parse']['src'] != 'prog.fml')[0] for f in ('json', 'lisp', 'yaml')]
    tasks = []
    for pi, pl in enumerate(payloads):
        if pl['paths'] == 'all':
            chosen = paths
        elif pl['paths'] == 'formats':
            chosen = per_format
        elif pl['paths'] == 'few':
            chosen = per_format + per_format_pipe + per_format_dir + rng.sample(paths, 2 if tier != 'thorough' else 8)
        else:
            chosen = per_format + rng.sample(paths, 12 if tier != 'thorough' else 60)
        for path in chosen:
            tasks.append((pi, path))
    from concurrent.futures import ThreadPoolExecutor

    DECOY = '; '.join('print("stale artifact line ~ that must not survive re-staging\\n", %d)' % i for i in range(40))

    def do(k):
        pi, path = tasks[k]
        # every third replay re-stages into files left by a longer, different program
        return replay_path(exe, wd, k, path, payloads[pi]['text'], decoy=(DECOY if k % 3 == 1 and 'depth' not in payloads[pi]['name'] else None))
    with ThreadPoolExecutor(max_workers=12) as ex:
        results = list(ex.map(do, range(len(tasks))))
    # reference observations: fml run (file, stdin), wrapper script, in-process compile
    hrecs = [{'id': i, 'text': pl['text'], 'want': []} for i, pl in enumerate(payloads)]
    houts = run_harness(exe, 'run', hrecs, wd, tag='c06h')
    obs = []
    refs = {}
    for pi, pl in enumerate(payloads):
        rd = os.path.join(wd, 'ref%d' % pi)
        os.makedirs(rd)
        open(os.path.join(rd, 'prog.fml'), 'w', encoding='utf-8').write(pl['text'])
        rc, so, se = run_stage(exe, rd, ['run', 'prog.fml'])
        refs[pi] = (rc, so)
        val = {'status': 'ok' if rc == 0 else ('crash' if rc < 0 or rc >= 128 else 'fail'), 'stdout': hashlib.sha1(so).hexdigest()}
        obs.append({'key': pl['name'] + ' :: outcome', 'val': val, 'cfg': 'fml run FILE', 'pi': pi})
        rc2, so2, se2 = run_stage(exe, rd, ['run'], stdin_path='prog.fml')
        obs.append({'key': pl['name'] + ' :: outcome', 'val': {'status': 'ok' if rc2 == 0 else ('crash' if rc2 < 0 or rc2 >= 128 else 'fail'), 'stdout': hashlib.sha1(so2).hexdigest()}, 'cfg': 'fml run < stdin', 'pi': pi})
        if pl['paths'] in ('all', 'some') or pl['name'].endswith('brainfuck.fml'):
            env = dict(os.environ, PARSER=exe, COMPILER=exe, INTERPRETER=exe)
            try:
                pw = subprocess.run(['bash', os.path.join(REPO, 'fml'), 'run', 'prog.fml'], cwd=rd, env=env, stdout=subprocess.PIPE, stderr=subprocess.PIPE, timeout=60)
                obs.append({'key': pl['name'] + ' :: outcome', 'val': {'status': 'ok' if pw.returncode == 0 else 'fail', 'stdout': hashlib.sha1(pw.stdout).hexdigest()}, 'cfg': 'wrapper script `fml run` (parse -> JSON -> compile -> execute)', 'pi': pi, 'stderr': pw.stderr.decode('utf-8', 'replace')[:500], 'reclimit': b'recursion limit exceeded' in pw.stderr, 'format': 'json'})
            except subprocess.TimeoutExpired:
                pass
        if 'bytes' in houts[pi]:
            obs.append({'key': pl['name'] + ' :: bytes', 'val': {'bc': hashlib.sha1(bytes(houts[pi]['bytes'])).hexdigest()}, 'cfg': 'in-process compile (what run executes)', 'pi': pi})
        if pl['paths'] in ('all', 'some'):
            # the NAME given on the command line decides the inferred format and the names written by -o DIRECTORY, also when it is a symbolic link to a file called otherwise
            try:
                os.makedirs(os.path.join(rd, 'store'))
                os.makedirs(os.path.join(rd, 'out'))
                os.rename(os.path.join(rd, 'prog.fml'), os.path.join(rd, 'store', '0001'))
                os.symlink(os.path.join('store', '0001'), os.path.join(rd, 'prog.fml'))
                r1 = run_stage(exe, rd, ['parse', 'prog.fml', '--format', 'json', '-o', 'out'])
                os.rename(os.path.join(rd, 'out', 'prog.json'), os.path.join(rd, 'store', '0002')) if os.path.exists(os.path.join(rd, 'out', 'prog.json')) else None
                os.symlink(os.path.join('store', '0002'), os.path.join(rd, 'linked.json'))
                r2 = run_stage(exe, rd, ['compile', 'linked.json', '-o', 'out'])
                r3 = run_stage(exe, rd, ['execute', os.path.join('out', 'linked.bc')])
                ok = r1[0] == 0 and r2[0] == 0 and os.path.exists(os.path.join(rd, 'out', 'linked.bc'))
                val = {'status': 'ok' if r3[0] == 0 else ('crash' if r3[0] < 0 or r3[0] >= 128 else 'fail'), 'stdout': hashlib.sha1(r3[1]).hexdigest()} if ok else {'status': 'fail', 'stdout': hashlib.sha1(b'').hexdigest()}
                obs.append({'key': pl['name'] + ' :: outcome', 'val': val, 'cfg': 'parse / compile / execute through symbolic links (prog.fml -> store/0001, linked.json -> store/0002) with -o DIRECTORY', 'pi': pi})
            except OSError:
                pass
    for k, (pi, path) in enumerate(tasks):
        o = results[k]
        pl = payloads[pi]
        cfg = 'parse[%s %s %s %s%s] compile[%s %s%s] execute[%s]' % (path['parse']['src'] if path['parse']['in'] == 'file' else 'stdin', path['parse']['in'], path['parse']['out'], path['parse']['fmt'],
                                                                     ' --format ' + path['parse']['named'] if path['parse']['explicit'] else ' inferred',
                                                                     path['compile']['in'], path['compile']['out'], ' --input-format ' + path['compile']['named'] if path['compile']['explicit'] else ' inferred', path['execute']['in'])
        chk.count((pl['name'], cfg))
        if 'failed' in o:
            val = {'status': 'fail', 'stdout': hashlib.sha1(b'').hexdigest()}          # a stage that refuses = a failure before any output
            obs.append({'key': pl['name'] + ' :: outcome', 'val': val, 'cfg': cfg, 'pi': pi, 'failed': o['failed'], 'stderr': o['stderr'].decode('utf-8', 'replace')[:500], 'reclimit': b'recursion limit exceeded' in o['stderr'], 'format': path['parse']['fmt'], 'task': k})
            continue
        rc = o['exit']
        obs.append({'key': pl['name'] + ' :: outcome', 'val': {'status': 'ok' if rc == 0 else ('crash' if rc < 0 or rc >= 128 else 'fail'), 'stdout': hashlib.sha1(o['stdout']).hexdigest()}, 'cfg': cfg, 'pi': pi, 'task': k})
        obs.append({'key': pl['name'] + ' :: bytes', 'val': {'bc': hashlib.sha1(o['bc']).hexdigest()}, 'cfg': cfg, 'pi': pi, 'task': k})
    opath = os.path.join(wd, 'obs.ndjson')
    write_ndjson(opath, [{'key': o['key'], 'val': o['val'], 'cfg': o['cfg']} for o in obs])
    ro = tlc_or_die('FMLObservations', env={'OBS': opath}, workers=1, timeout=1200)
    chk.add_tlc(ro)
    if not ro.lines.get('DONE'):
        raise ToolError('FMLObservations did not reach the end of the history')
    for inc in ro.lines.get('INCONSISTENT', []):
        a, b = obs[inc['first'] - 1], obs[inc['second'] - 1]
        pl = payloads[b['pi']]
        sig = {'kind': 'pipeline-differs'}
        if b['val'].get('status') == 'fail' and b.get('reclimit') and a['val'].get('status') != b['val'].get('status'):
            # D6: measure the nesting depth of the serialized AST this stage was given
            fmt = b.get('format', 'json')
            metric, limit = DEPTH_LIMIT[fmt]
            rd = os.path.join(wd, 'ref%d' % b['pi'])
            rc, so, se = run_stage(exe, rd, ['parse', 'prog.fml', '--format', metric])
            txt = so.decode('utf-8', 'replace')
            depth = -1 if rc != 0 else (yaml_depth(txt) if fmt == 'yaml' else artifact_depth(txt, metric))
            sig = {'kind': 'stage-refuses', 'stage': 'compile', 'error': 'recursion-limit', 'format': fmt, 'serialized_depth_at_least_limit': depth >= limit}
        chk.violation('%s: `%s` gives %s but `%s` gives %s' % (inc['key'], a['cfg'], a['val'].get('status', a['val'].get('bc', ''))[:12], b['cfg'], b['val'].get('status', b['val'].get('bc', ''))[:12]),
                      {'payload': pl['name'], 'source': pl['text'][:1500], 'first': {k: v for k, v in a.items() if k != 'pi'}, 'second': {k: v for k, v in b.items() if k != 'pi'}, 'signature': sig})
    chk.traces += len(obs)
    # ---- AST identity per format, in-process
    arecs = []
    extra = pool.random_programs(tier_sizes(tier, 150, 4000), base_seed=seed() * 1877 + 8)
    cases = [(pl['name'], pl['ast'], pl['text']) for pl in payloads if pl['paths'] != 'formats'] + [(p['name'], p['ast'], p['text']) for p in extra]
    for i, (nm, ast, text) in enumerate(cases):
        arecs.append({'id': i, 'ast': strip_marks(ast)} if ast is not None else {'id': i, 'text': text})
    aouts = run_harness(exe, 'astser', arecs, wd, tag='c06a')
    pairs, pmeta = [], {}
    for i, o in enumerate(aouts):
        if o.get('parse') != 'ok' or 'ast' not in o:
            continue
        for fmt in ('json', 'lisp', 'yaml'):
            f = (o.get('formats') or {}).get(fmt, {})
            st = 'ok' if (f.get('ser') == 'ok' and f.get('de') == 'ok') else ('panic' if 'panic' in (f.get('ser'), f.get('de')) else 'err')
            j = len(pairs)
            pmeta[j] = (i, fmt, f.get('msg', ''))
            pairs.append({'id': j, 'expected': o['ast'], 'parsed': f.get('ast', {'t': 'none'}), 'status': st})
            chk.count((cases[i][0], 'reload:' + fmt))
    for b in range(0, len(pairs), 3000):
        part = pairs[b:b + 3000]
        ppath = os.path.join(wd, 'astpairs.%d.ndjson' % b)
        write_ndjson(ppath, part)
        rt = tlc_or_die('TraceParse', env={'PAIRS': ppath}, workers=12, timeout=1800, tag='c06t')
        chk.add_tlc(rt)
        vs = {v['id']: v for v in rt.lines.get('VERDICT', [])}
        if len(vs) != len(part):
            raise ToolError('TraceParse: %d verdicts for %d pairs' % (len(vs), len(part)))
        for rec in part:
            v = vs[rec['id']]['verdict']
            chk.traces += 1
            if v not in ('ok', 'expected-tree-outside-parser-range'):
                i, fmt, msg = pmeta[rec['id']]
                chk.violation('%s: AST does not survive the %s interchange format (%s) %s' % (cases[i][0], fmt, v, msg[:80]),
                              {'payload': cases[i][0], 'source': cases[i][2][:1500], 'format': fmt, 'verdict': v, 'msg': msg[:300], 'signature': {'kind': 'ast-reload', 'format': fmt, 'verdict': v}})
    chk.notes.update({'payloads': len(payloads), 'path_replays': len(tasks), 'observations': len(obs), 'ast_reload_pairs': len(pairs)})
    chk.sample({'payload': payloads[0]['name'], 'path': tasks[0][1], 'stages': results[0].get('stages')})
    chk.sample({'payload': payloads[5]['name'], 'text': payloads[5]['text'][:120]})
    chk.assumptions = ['TLC, Json module', 'exit status and stdout of subprocesses as the shell reports them', 'serialized-depth metric for the known finding D6 (brackets / parentheses outside strings)']
    rm(wd)
    return chk.finish()


# ------------------------------------------------------------------------------------------------ C11
def order_sensitive_programs(rng, n):
    """programs with many names in every hashed table: globals, functions, locals in nested scopes, labels, fields, methods; and programs with runs of 2..7 adjacent labels"""
    out = []
    for k in range(n):
        names = ['g%s%d' % (rng.choice('abcdefghij'), i) for i in range(rng.randint(8, 25))]
        names = list(dict.fromkeys(names))
        es = [Let(nm, I(i)) for i, nm in enumerate(names)]
        for i in range(rng.randint(3, 9)):
            ps = ['p%d' % j for j in range(rng.randint(0, 3))]
            # blocks that close with several dead locals, followed by new locals (slot numbering must not depend on hashing)
            dead = lambda tag: Blk([Let('%s%d_%d' % (tag, i, j), I(j)) for j in range(rng.randint(2, 5))] + [Pr('~;', [V('%s%d_0' % (tag, i))])])
            body = Blk([Let('l%d' % j, I(j)) for j in range(rng.randint(1, 5))] +
                       [If(Op('<', V(rng.choice(names)), I(5)), Blk([Let('in%d' % i, I(1)), Pr('~;', [V('in%d' % i)])]), Pr('e;')),
                        dead('da'), Let('after%d' % i, I(7)), dead('db'), Let('later%d' % i, Op('+', V('after%d' % i), I(1))),
                        Blk([Let('x', I(1)), Blk([Let('x', I(2)), Let('y', I(3)), Pr('~ ~;', [V('x'), V('y')])]), Let('z', V('x')), Pr('~;', [V('z')])]),
                        Op('+', V('l0'), Op('+', V('later%d' % i), V(rng.choice(names))))])
            es.append(Fun('fn%s%d' % (rng.choice('xyz'), i), ps, body))
        fields = list(dict.fromkeys(rng.choice('abcxyzABC_') + rng.choice('abcxyz019_') for _ in range(rng.randint(3, 10))))
        members = [Let(f, I(i)) for i, f in enumerate(fields)] + [Fun('m%d' % i, [], I(i)) for i in range(rng.randint(1, 5))]
        rng.shuffle(members)
        es.append(Let('obj', Obj(N(), members)))
        es.append(Pr('~\\n', [V('obj')]))
        for i in range(rng.randint(2, 6)):
            es.append(Wh(Op('<', V(names[0]), I(i)), Asg(names[0], Op('+', V(names[0]), I(1)))))
        es.append(Pr(' '.join(['~'] * min(len(names), 6)) + '\\n', [V(nm) for nm in names[:6]]))
        ast = Top(es)
        out.append({'name': 'hashy:%d' % k, 'text': unparse(ast), 'ast': ast})
    # runs of adjacent labels (2 ... 7 of them): one-armed ifs nested in tail position at the end of a loop body / a function body / the program, if-else ladders that end together
    for d in range(2, 8):
        conds = ' '.join('if i > %d then' % j for j in range(1, d + 1))
        ladder = ' else '.join('if i == %d then print("=%d;")' % (j, j) for j in range(1, d + 1)) + ' else print("other;")'
        for frame, text in (('loop', 'let n = 0; let i = 0; while i < %d do begin i <- i + 1; %s n <- n + i end; print("~ ~\\n", n, i)' % (d + 3, conds)),
                            ('function', 'function f(i) -> begin print("f~;", i); %s print("deep ~;", i) end; let k = 0; while k < %d do begin f(k); k <- k + 1 end; print("\\n")' % (conds, d + 3)),
                            ('ladder-in-loop', 'let i = 0; while i < %d do begin i <- i + 1; %s end; print("\\n")' % (d + 2, ladder)),
                            ('program-end', 'let i = %d; print("start\\n"); %s print("reached\\n")' % (d, conds))):
            out.append({'name': 'labelrun:%d/%s' % (d, frame), 'text': text, 'ast': None})
    return out


def c11(tier):
    chk = Check('C11', tier)
    chk.rule = ('every program (corpus, seeded random programs, programs with many names in every hashed table) is compiled and executed repeatedly: twice in one process, in three '
                'fresh processes (fresh hash seeds) of the debug build and two of the release build, and through the real `fml compile`/`fml run` command line (there also callables whose frames have exactly 65535 / 65536 slots); TLC-generated bytecode with duplicate label texts (MC_DupLabels) is executed in several fresh processes; the history of observations '
                '(program -> compiled bytes, bytes -> status + output) is validated by TLC against FMLObservations: a result is a function of its key and may not depend on run number, '
                'process or build profile. distinct_nontrivial = distinct (program, observation source) pairs.')
    wd = scratch('c11')
    rng = random.Random(seed())
    progs = pool.corpus() + pool.random_programs(tier_sizes(tier, 80, 3000), base_seed=seed() * 2957 + 10) + order_sensitive_programs(rng, tier_sizes(tier, 25, 500))
    recs = [{'id': i, 'text': p['text'], 'want': ['run', 'repeat'], 'budget': 20000} for i, p in enumerate(progs)]
    obs = []

    def add(i, what, val, cfg):
        obs.append({'key': '%s :: %s' % (progs[i]['name'], what), 'val': val, 'cfg': cfg})
        chk.count((progs[i]['name'], cfg))
    for profile, rounds in (('debug', 3), ('release', 2)):
        exe = build(profile)
        for rd in range(rounds):
            outs = run_harness(exe, 'run', recs, wd, tag='c11%s%d' % (profile[0], rd), jobs=4 + rd)
            for i, o in enumerate(outs):
                cfg = '%s process %d' % (profile, rd + 1)
                if o.get('crash') is not None:
                    add(i, 'bytes', {'d': 'crash'}, cfg)
                    continue
                stage = 'ok' if 'bytes' in o else 'rejected:%s/%s' % (o.get('parse'), o.get('compile'))
                add(i, 'bytes', {'d': hashlib.sha1(bytes(o.get('bytes', []))).hexdigest(), 'stage': stage}, cfg)
                if 'bytes_again' in o:
                    add(i, 'bytes', {'d': hashlib.sha1(bytes(o['bytes_again'])).hexdigest(), 'stage': 'ok'}, cfg + ' (second compile in the same process)')
                run = o.get('run')
                if run and not run.get('diverged'):
                    add(i, 'outcome', {'ok': bool(run.get('ok')), 'out': hashlib.sha1(bytes(run.get('out', []))).hexdigest()}, cfg)
                ra = o.get('run_again')
                if ra and not ra.get('diverged'):
                    add(i, 'outcome', {'ok': bool(ra.get('ok')), 'out': hashlib.sha1(bytes(ra.get('out', []))).hexdigest()}, cfg + ' (second run in the same process)')
            if profile == 'debug' and rd == 0:
                first = outs
        # the real command line on a sample
        for i in rng.sample(range(len(progs)), min(len(progs), tier_sizes(tier, 25, 300))):
            if 'bytes' not in first[i] or (first[i].get('run') or {}).get('diverged'):
                continue
            src = os.path.join(wd, 'c%d.fml' % i)
            open(src, 'w', encoding='utf-8').write(progs[i]['text'])
            js = os.path.join(wd, 'c%d.json' % i)
            bc = os.path.join(wd, 'c%d.%s.bc' % (i, profile))
            rc, _, _ = sh([exe, 'parse', src, '--format', 'json', '-o', js], wd)
            rc2, _, _ = sh([exe, 'compile', js, '-o', bc], wd) if rc == 0 else (1, b'', b'')
            if rc2 == 0:
                add(i, 'bytes', {'d': hashlib.sha1(open(bc, 'rb').read()).hexdigest(), 'stage': 'ok'}, '%s `fml parse | fml compile`' % profile)
            rc3, so, se = sh([exe, 'run', src], wd)
            add(i, 'outcome', {'ok': rc3 == 0, 'out': hashlib.sha1(so).hexdigest()}, '%s `fml run`' % profile)
    # frames of exactly 65535 / 65536 slots (the 16-bit limits), far too long for TLC: the real command line of both builds, and the output the programs must print
    fl = pool.frame_limit_programs()
    for k, p in enumerate(fl):
        src = os.path.join(wd, 'fl%d.fml' % k)
        open(src, 'w', encoding='utf-8').write(p['text'])
        obs.append({'key': p['name'] + ' :: outcome', 'val': {'ok': True, 'out': hashlib.sha1(p['expect']).hexdigest()}, 'cfg': 'prescribed output'})
        for profile in ('debug', 'release'):
            rc, so, se = sh([build(profile), 'run', src], wd)
            obs.append({'key': p['name'] + ' :: outcome', 'val': {'ok': rc == 0, 'out': hashlib.sha1(so).hexdigest()}, 'cfg': '%s `fml run`' % profile})
            chk.count((p['name'], profile))
    chk.notes['frame_limit_programs'] = len(fl)
    # what a result is does not depend on what is already there: output appended to a file that has content; a compile into a file that holds a NEWER image of another program
    cands = [k for k, o in enumerate(first) if 'bytes' in o and (o.get('run') or {}).get('ok') and len((o.get('run') or {}).get('out', [])) > 0 and not (o.get('run') or {}).get('diverged')][:4]
    for n, i in enumerate(cands):
        src = os.path.join(wd, 'ap%d.fml' % i)
        open(src, 'w', encoding='utf-8').write(progs[i]['text'])
        out = bytes(first[i]['run']['out'])
        f = os.path.join(wd, 'ap%d.txt' % i)
        subprocess.run(['bash', '-c', '{ echo header; "%s" run "%s"; } > "%s"; "%s" run "%s" >> "%s"' % (build('debug'), src, f, build('debug'), src, f)], cwd=wd, stdout=subprocess.PIPE, stderr=subprocess.PIPE, timeout=120)
        obs.append({'key': progs[i]['name'] + ' :: appended', 'val': {'d': hashlib.sha1(b'header\n' + out + out).hexdigest()}, 'cfg': 'prescribed: header, output, output'})
        obs.append({'key': progs[i]['name'] + ' :: appended', 'val': {'d': hashlib.sha1(open(f, 'rb').read() if os.path.exists(f) else b'').hexdigest()}, 'cfg': '`{ echo header; fml run; } > FILE; fml run >> FILE`'})
        j = cands[(n + 1) % len(cands)]
        if j != i:
            ja, jb, bc = os.path.join(wd, 'ts%d.a.json' % i), os.path.join(wd, 'ts%d.b.json' % i), os.path.join(wd, 'ts%d.bc' % i)
            srcj = os.path.join(wd, 'ap%d.src.fml' % j)
            open(srcj, 'w', encoding='utf-8').write(progs[j]['text'])
            sh([build('debug'), 'parse', srcj, '--format', 'json', '-o', ja], wd)
            sh([build('debug'), 'parse', src, '--format', 'json', '-o', jb], wd)
            if os.path.exists(ja) and os.path.exists(jb):
                sh([build('debug'), 'compile', ja, '-o', bc], wd)
                os.utime(jb, (time.time() - 86400, time.time() - 86400))          # the input about to be compiled is older than what the output file holds
                sh([build('debug'), 'compile', jb, '-o', bc], wd)
                obs.append({'key': progs[i]['name'] + ' :: bytes', 'val': {'d': hashlib.sha1(open(bc, 'rb').read() if os.path.exists(bc) else b'').hexdigest(), 'stage': 'ok'}, 'cfg': 'debug `fml compile` into a file that holds a newer image of another program'})
    # byte strings no compiler writes but a loader may meet: an image followed by a line break, by junk, by a second image (cat a.bc b.bc): whatever a build does with
    # them, every build and every process does the same
    tails = 0
    for i in [k for k, o in enumerate(first) if 'bytes' in o][:6]:
        for tname, tail in (('newline', b'\n'), ('junk', b'\x00\xff junk'), ('second image', bytes(first[i]['bytes']))):
            bc = os.path.join(wd, 't%d.%s.bc' % (i, tname.replace(' ', '_')))
            open(bc, 'wb').write(bytes(first[i]['bytes']) + tail)
            tails += 1
            for profile in ('debug', 'release'):
                for rd in range(2):
                    rc, so, se = sh([build(profile), 'execute', bc], wd)
                    obs.append({'key': '%s + trailing %s :: outcome' % (progs[i]['name'], tname), 'val': {'ok': rc == 0, 'out': hashlib.sha1(so).hexdigest()}, 'cfg': '%s `fml execute` process %d' % (profile, rd + 1)})
                    chk.count((progs[i]['name'] + ' + ' + tname, profile))
    chk.notes['images_with_trailing_bytes'] = tails
    # bytecode with duplicate label texts (TLC-generated, MC_DupLabels): the same bytes must always behave the same, in every process
    rd = tlc_or_die('MC_DupLabels', workers=2, timeout=600)
    chk.add_tlc(rd)
    dups = rd.lines.get('REPLAY', [])
    dprogs = [{'name': 'duplabels:%s' % json.dumps(g['v'], sort_keys=True)} for g in dups]
    import vmtrace
    exe = build('debug')
    dtr = []
    for rdn in range(tier_sizes(tier, 6, 20)):
        douts = run_harness(exe, 'exec', [{'id': j, 'bytes': g['bytes'], 'want': ['run', 'events', 'final', 'repeat'], 'budget': 1000} for j, g in enumerate(dups)], wd, tag='c11dup%d' % rdn, jobs=1 + rdn % 3)
        for j, o in enumerate(douts):
            run = o.get('run') or {}
            val = {'ok': bool(run.get('ok')), 'out': hashlib.sha1(bytes(run.get('out', []))).hexdigest(), 'load': o.get('load')}
            obs.append({'key': dprogs[j]['name'] + ' :: outcome', 'val': val, 'cfg': 'debug process %d (in-process VM)' % (rdn + 1)})
            chk.count((dprogs[j]['name'], 'process %d' % rdn))
            if rdn == 0:
                o['bytes'] = dups[j]['bytes']
                dtr.append(vmtrace.to_trace_record(j, o))
            bc = os.path.join(wd, 'dup%d.bc' % j)
            open(bc, 'wb').write(bytes(dups[j]['bytes']))
            rc, so, se = sh([exe, 'execute', bc], wd)
            obs.append({'key': dprogs[j]['name'] + ' :: outcome', 'val': {'ok': rc == 0, 'out': hashlib.sha1(so).hexdigest(), 'load': 'ok'}, 'cfg': '`fml execute` process %d' % (rdn + 1)})
    # ... and that behaviour is the one the abstract machine prescribes (last definition in code order wins)
    dvs, drs = vmtrace.validate(dtr, wd, tag='c11dup')
    for r_ in drs:
        chk.add_tlc(r_)
    from checks_vm import report_vm
    chk.traces += report_vm(chk, {j: dprogs[j]['name'] for j in range(len(dprogs))}, dtr, dvs)
    progs = progs + [{'name': d['name'], 'text': '(bytecode) ' + json.dumps(dups[j]['bytes'])} for j, d in enumerate(dprogs)]
    opath = os.path.join(wd, 'obs.ndjson')
    write_ndjson(opath, obs)
    ro = tlc_or_die('FMLObservations', env={'OBS': opath}, workers=1, timeout=1800, dfs=True)
    chk.add_tlc(ro)
    if not ro.lines.get('DONE'):
        raise ToolError('FMLObservations did not reach the end of the history')
    for inc in ro.lines.get('INCONSISTENT', []):
        a, b = obs[inc['first'] - 1], obs[inc['second'] - 1]
        name = inc['key'].split(' :: ')[0]
        p = ([x for x in progs + dprogs + fl if x['name'] == name] or [{}])[0]
        chk.violation('%s differs between [%s] and [%s]' % (inc['key'], a['cfg'], b['cfg']),
                      {'program': name, 'source': (p.get('text') or '')[-3000:], 'first': a, 'second': b, 'signature': {'kind': 'nondeterminism', 'what': inc['key'].split(' :: ')[1]}})
    chk.traces += len(obs)
    chk.notes.update({'programs': len(progs), 'observations': len(obs), 'keys': ro.lines['DONE'][0]['keys']})
    chk.sample(obs[0])
    chk.sample(obs[len(obs) // 2])
    chk.assumptions = ['TLC, Json module', 'SHA-1 digests stand for the byte strings they summarise']
    rm(wd)
    return chk.finish()
