"""C08 (sink), C06 (staged pipeline), C07 (parser), C11 (determinism), C17 (disassembly)."""
import os, json, random, subprocess, hashlib, time
from common import *
import pool
from checks_bytecode import tier_sizes, compile_pool
from gen import *
from unparse import unparse, strip_marks


def sh(cmd, cwd, stdin=None, timeout=60):
    p = subprocess.run(cmd, cwd=cwd, shell=isinstance(cmd, str), stdin=stdin, stdout=subprocess.PIPE, stderr=subprocess.PIPE, timeout=timeout)
    return p.returncode, p.stdout, p.stderr


SINK_PAYLOADS = [
    ('payload:lf-then-3000', 'print("x\\n' + 'a' * 3000 + '")'),
    ('payload:many-lines', 'print("' + ('line\\n' * 40) + '"); print("' + 'b' * 1500 + '")'),
    ('payload:lf-in-name-and-big-method', 'function f(a) -> begin ' + '; '.join('print("~\\n", a + %d)' % i for i in range(120)) + ' end; f(1)'),
    ('payload:utf8', 'print("é世😀\\n' + 'é' * 700 + '\\n' + '世' * 500 + '")'),
]


def c08(tier):
    chk = Check('C08', tier)
    chk.rule = ('design: FMLSink model-checked by TLC (write_all writer keeps PrefixInv and Complete under every sink behaviour incl. short writes, zero writes, Interrupted, '
                'errors; the write-once-ignore-count writer is required to violate PrefixInv, as a guard that the model can tell them apart). impl->spec: the real Program::serialize '
                'writes each program into a chunking sink under every per-call limit k = 1..max request and with a short write (1 byte) injected at each write call in turn, plus '
                'Interrupted / zero-write / hard-error injections; TLC replays every recorded call (TraceSink) and checks the delivered stream against the TLA+ writer Encode. '
                'Real stdout: `fml compile` redirected to a file and piped through cat versus -o, judged by FMLObservations. distinct_nontrivial = distinct (program, schedule) conversations.')
    exe = build('debug')
    wd = scratch('c08')
    r = tlc_or_die('MC_Sink', cfg='MC_Sink', workers=4, timeout=600)
    chk.add_tlc(r)
    r2 = tlc('MC_Sink', cfg='MC_SinkOnce', workers=1, timeout=600)
    if 'Invariant PrefixInv is violated' not in r2.stdout:
        raise ToolError('FMLSink vacuity guard: the write-once-ignore-count writer no longer violates PrefixInv')
    chk.add_tlc(r2)
    progs = [{'name': n, 'text': t, 'ast': None} for n, t in SINK_PAYLOADS] + pool.corpus()[:tier_sizes(tier, 6, 40)] + \
        pool.random_programs(tier_sizes(tier, 8, 300), base_seed=seed() * 6151 + 2, size=12)
    outs = compile_pool(exe, progs, wd, [], 'c08')
    srecs, meta = [], {}
    rng = random.Random(seed())
    for i, o in enumerate(outs):
        if 'bytes' not in o:
            continue
        b = o['bytes']
        # learn the request sequence with an unlimited sink
        probe = run_harness(exe, 'sink', [{'id': 0, 'bytes': b}], wd, tag='c08p%d' % i, jobs=1)[0]
        ncalls = len(probe.get('calls', []))
        maxreq = max([c['len'] for c in probe.get('calls', [])] or [1])
        scheds = [{'limit': k} for k in range(1, min(maxreq, 12) + 1)] + [{'limit': k} for k in sorted({maxreq - 1, maxreq // 2, 64, 1000}) if k > 12 and k < maxreq]
        js = list(range(ncalls)) if (ncalls <= 150 or tier == 'thorough') else sorted(rng.sample(range(ncalls), 150))
        scheds += [{'short_at': j, 'short_n': 1} for j in js]
        scheds += [{'interrupt_at': j} for j in js[::max(1, len(js) // 10)]]
        scheds += [{'zero_at': j} for j in js[::max(1, len(js) // 6)]] + [{'fail_at': j} for j in js[::max(1, len(js) // 6)]]
        scheds += [{'limit': 2, 'interrupt_at': ncalls // 2}, {'limit': 3, 'short_at': ncalls // 3, 'short_n': 1}]
        for sc in scheds:
            j = len(srecs)
            meta[j] = (i, sc)
            srecs.append(dict({'id': j, 'bytes': b}, **sc))
    log('[c08] %d schedules, %.0fs' % (len(srecs), time.time() - chk.t0))
    souts = run_harness(exe, 'sink', srecs, wd, tag='c08s', jobs=16)
    log('[c08] sink runs done %.0fs' % (time.time() - chk.t0))
    trecs = []
    laid = {}
    for j, so in enumerate(souts):
        i, sc = meta[j]
        if so.get('crash') is not None or 'calls' not in so:
            chk.violation('%s %s: serializing into the sink died' % (progs[i]['name'], sc), {'program': progs[i]['name'], 'schedule': sc, 'signature': {'kind': 'crash'}})
            continue
        if i not in laid:
            laid[i] = len(laid) + 1
            first = True
        else:
            first = False
        trecs.append({'id': j, 'p': laid[i], 'calls': so['calls'], 'result': so['result'], 'checklayout': first})
        chk.count((progs[i]['name'], json.dumps(sc, sort_keys=True)))
    ppath = os.path.join(wd, 'sinkp.ndjson')
    write_ndjson(ppath, [{'expected': outs[i]['bytes']} for i, _ in sorted(laid.items(), key=lambda kv: kv[1])])
    for b in range(0, len(trecs), 3000):
        part = trecs[b:b + 3000]
        path = os.path.join(wd, 'sink.%d.ndjson' % b)
        write_ndjson(path, part)
        rt = tlc_or_die('TraceSink', env={'SINK': path, 'SINKP': ppath}, workers=12, timeout=1800, tag='c08t')
        chk.add_tlc(rt)
        vs = {v['id']: v for v in rt.lines.get('VERDICT', [])}
        if len(vs) != len(part):
            raise ToolError('TraceSink: %d verdicts for %d conversations' % (len(vs), len(part)))
        for rec in part:
            v = vs[rec['id']]
            chk.traces += 1
            if v['verdict'] != 'ok':
                i, sc = meta[rec['id']]
                chk.violation('%s under sink schedule %s: %s' % (progs[i]['name'], sc, v['verdict']),
                              {'program': progs[i]['name'], 'source': progs[i]['text'][:2000], 'schedule': sc, 'verdict': v['verdict'], 'bytes': outs[i]['bytes'][:4000],
                               'delivered_len': sum(max(c['acc'], 0) for c in rec['calls']), 'expected_len': len(outs[i]['bytes']),
                               'signature': {'kind': 'sink', 'verdict': v['verdict']}})
    log('[c08] TraceSink done %.0fs' % (time.time() - chk.t0))
    # the real stdout: redirect and pipe versus -o
    obs = []
    for i, p in enumerate(progs[:tier_sizes(tier, 12, 120)]):
        if 'bytes' not in outs[i]:
            continue
        src = os.path.join(wd, 'r%d.fml' % i)
        open(src, 'w', encoding='utf-8').write(p['text'])
        js = os.path.join(wd, 'r%d.json' % i)
        rc, _, _ = sh([exe, 'parse', src, '--format', 'json', '-o', js], wd)
        if rc != 0:
            continue
        variants = {'-o file': [exe, 'compile', js, '-o', os.path.join(wd, 'r%d.o.bc' % i)],
                    'redirect': '"%s" compile "%s" > "%s"' % (exe, js, os.path.join(wd, 'r%d.redirect.bc' % i)),
                    'pipe': '"%s" compile "%s" | cat > "%s"' % (exe, js, os.path.join(wd, 'r%d.pipe.bc' % i)),
                    'stdin+redirect': '"%s" compile --input-format json < "%s" > "%s"' % (exe, js, os.path.join(wd, 'r%d.stdin+redirect.bc' % i))}
        for name, cmd in variants.items():
            rc, so, se = sh(cmd, wd)
            f = os.path.join(wd, 'r%d.%s.bc' % (i, 'o' if name == '-o file' else name))
            data = open(f, 'rb').read() if os.path.exists(f) else b''
            obs.append({'key': p['name'], 'val': {'exit': 0 if rc == 0 else 1, 'bytes': hashlib.sha1(data).hexdigest(), 'len': len(data)}, 'cfg': name})
            chk.count((p['name'], 'cli:' + name))
        obs.append({'key': p['name'], 'val': {'exit': 0, 'bytes': hashlib.sha1(bytes(outs[i]['bytes'])).hexdigest(), 'len': len(outs[i]['bytes'])}, 'cfg': 'in-memory Vec'})
    opath = os.path.join(wd, 'obs.ndjson')
    write_ndjson(opath, obs)
    ro = tlc_or_die('FMLObservations', env={'OBS': opath}, workers=1, timeout=600)
    chk.add_tlc(ro)
    if not ro.lines.get('DONE'):
        raise ToolError('FMLObservations did not reach the end of the history')
    for inc in ro.lines.get('INCONSISTENT', []):
        a, b = obs[inc['first'] - 1], obs[inc['second'] - 1]
        p = [x for x in progs if x['name'] == inc['key']][0]
        chk.violation('%s: `fml compile` wrote %d bytes via %s but %d bytes via %s' % (inc['key'], a['val']['len'], a['cfg'], b['val']['len'], b['cfg']),
                      {'program': inc['key'], 'source': p['text'][:3000], 'first': a, 'second': b, 'signature': {'kind': 'cli-sink'}})
    chk.traces += len(obs)
    chk.notes.update({'sink_conversations': len(trecs), 'write_calls_replayed': sum(len(t['calls']) for t in trecs), 'cli_observations': len(obs), 'programs': len(progs)})
    if trecs:
        k = len(trecs) // 2
        chk.sample({'program': progs[meta[trecs[k]['id']][0]]['name'], 'schedule': meta[trecs[k]['id']][1], 'calls': [[c['len'], c['acc']] for c in trecs[k]['calls'][:12]], 'result': trecs[k]['result']})
    chk.sample(obs[1] if len(obs) > 1 else obs[:1])
    chk.assumptions = ['TLC, Json module', 'the chunking sink of the harness honours the Write contract']
    rm(wd)
    return chk.finish()


# ------------------------------------------------------------------------------------------------ C17
import re
MNEMONICS = ['get local', 'set local', 'get global', 'set global', 'get slot', 'set slot', 'call slot', 'call', 'printf', 'label', 'goto', 'branch', 'return', 'drop', 'lit', 'object', 'array']
RE_IDX = re.compile(r'^\s*(\d+)\s*:\s?(.*)$', re.S)
RE_METHOD = re.compile(r'^method\s+#(\d+)\s+args:(\d+)\s+locals:(\d+)\s+(\d+)-(\d+|∅)$')


def lex_listing(text):
    """split a disassembly into tokens (no judgement): returns (lexed_ok, listing dict)"""
    L = {'consts': [], 'entry': -1, 'globals': [], 'code': []}
    ok = True
    section = None
    for line in text.split('\n'):
        if line.strip() == '':
            continue
        s = line.strip()
        if s == 'Constant Pool:':
            section = 'consts'
            continue
        if s == 'Globals:':
            section = 'globals'
            continue
        if s == 'Code:':
            section = 'code'
            continue
        m = re.match(r'^Entry:\s*#(\d+)$', s)
        if m:
            L['entry'] = int(m.group(1))
            continue
        m = RE_IDX.match(line)
        if not m or section is None:
            ok = False
            continue
        idx, payload = int(m.group(1)), m.group(2)
        if section == 'consts':
            p = payload.strip()
            e = {'idx': idx}
            mm = RE_METHOD.match(p)
            if len(payload) >= 2 and payload.lstrip().startswith('"') and payload.rstrip().endswith('"'):
                q = payload.strip()
                e.update(kind='str', bytes=list(q[1:-1].encode('utf-8')))
            elif re.match(r'^slot\s+#(\d+)$', p):
                e.update(kind='slot', name=int(p.split('#')[1]))
            elif mm:
                first = int(mm.group(4))
                e.update(kind='method', name=int(mm.group(1)), arity=int(mm.group(2)), locals=int(mm.group(3)), first=first,
                         last=(first - 1 if mm.group(5) == '∅' else int(mm.group(5))))
            elif re.match(r'^class(\s+#\d+(,\s*#\d+)*)?$', p):
                e.update(kind='class', members=[int(x) for x in re.findall(r'#(\d+)', p)])
            elif p == 'null':
                e.update(kind='null')
            elif p in ('true', 'false'):
                e.update(kind='bool', b=(p == 'true'))
            elif re.match(r'^-?\d+$', p) and -2**31 <= int(p) < 2**31:
                e.update(kind='int', i=int(p))
            else:
                ok = False
                continue
            L['consts'].append(e)
        elif section == 'globals':
            mm = re.match(r'^#(\d+)$', payload.strip())
            if not mm:
                ok = False
                continue
            L['globals'].append({'idx': idx, 'ref': int(mm.group(1))})
        else:
            p = payload.strip()
            mn = None
            for cand in MNEMONICS:
                if p == cand or p.startswith(cand + ' '):
                    mn = cand
                    break
            if mn is None:
                ok = False
                continue
            nums = [int(x) for x in re.findall(r'\d+', p[len(mn):])]
            rest_ok = re.match(r'^(\s+(#|::)?\d+)*$', p[len(mn):]) is not None
            if not rest_ok or len(nums) > 2:
                ok = False
                continue
            L['code'].append({'idx': idx, 'mn': mn.replace(' ', ''), 'a': nums[0] if nums else 0, 'n': nums[1] if len(nums) > 1 else 0})
    return ok, L


def c17(tier):
    chk = Check('C17', tier)
    chk.rule = ('`fml disassemble` (real CLI for a sample, the same Display rendering in-process for the rest) on all compiler outputs of the pool, on programs whose strings contain '
                'quotes, colons, hashes, commas, leading/trailing spaces, kind-word look-alikes and non-ASCII text, and on TLC-generated structural programs (MC_Format); the driver only '
                'splits the text into tokens; TLC rebuilds the program from the listing (FMLListing.FromListing), checks numbering without gaps and that every instruction lies in '
                'exactly one method range, and compares with the independent decoding of the file. distinct_nontrivial = distinct files whose listing was judged in scope.')
    exe = build('debug')
    wd = scratch('c17')
    tricky = ['"', 'a"b', '""', ': 1', '#3', 'slot #2', 'method #1 args:0 locals:0 0000-0001', 'class #1,#2', ' lead', 'trail ', '  ', 'null', 'true', '12', '-5',
              '0: "x"', 'é世', 'a,b', "it's", '\\\\"', 'Entry: #0', 'Code:', '~ : ~', '//', '∅', '0000-∅']
    progs = [{'name': 'tricky:%d' % i, 'text': unparse(Top([Pr(s.replace('\\', '\\\\').replace('"', '\\"') if not s.startswith('\\\\') else s)])), 'ast': None} for i, s in enumerate(tricky)]
    progs += pool.corpus() + pool.random_programs(tier_sizes(tier, 120, 3000), base_seed=seed() * 3571 + 4) + pool.construct_family(limit=tier_sizes(tier, 80, 1500))
    outs = compile_pool(exe, progs, wd, ['listing'], 'c17')
    recs, names = [], {}
    for i, o in enumerate(outs):
        if 'bytes' not in o or 'listing' not in o:
            continue
        names[len(recs)] = progs[i]['name']
        recs.append({'bytes': o['bytes'], 'text': o['listing']})
    # the real CLI on a sample
    rng = random.Random(seed())
    for i in rng.sample(range(len(outs)), min(len(outs), tier_sizes(tier, 40, 400))):
        if 'bytes' not in outs[i]:
            continue
        f = os.path.join(wd, 'd%d.bc' % i)
        open(f, 'wb').write(bytes(outs[i]['bytes']))
        rc, so, se = sh([exe, 'disassemble', f], wd)
        names[len(recs)] = progs[i]['name'] + ' [fml disassemble]'
        recs.append({'bytes': outs[i]['bytes'], 'text': so.decode('utf-8', 'replace') if rc == 0 else '<<disassemble failed>>'})
    # TLC-generated structural programs
    from checks_bytecode import spec_generated_programs
    gen = spec_generated_programs(chk, wd, tier)
    xouts = run_harness(exe, 'exec', [{'id': j, 'bytes': g['bytes'], 'want': ['listing']} for j, g in enumerate(gen)], wd, tag='c17x')
    for j, o in enumerate(xouts):
        if 'listing' in o:
            names[len(recs)] = 'spec-generated:%d' % j
            recs.append({'bytes': gen[j]['bytes'], 'text': o['listing']})
    lrecs = []
    for k, r in enumerate(recs):
        ok, L = lex_listing(r['text'])
        lrecs.append({'id': k, 'bytes': r['bytes'], 'lexed': ok, 'listing': L})
    counts = {}
    for b in range(0, len(lrecs), 600):
        part = lrecs[b:b + 600]
        path = os.path.join(wd, 'lists.%d.ndjson' % b)
        write_ndjson(path, part)
        rt = tlc_or_die('FMLListing', env={'LISTS': path}, workers=12, timeout=1800, tag='c17t')
        chk.add_tlc(rt)
        vs = {v['id']: v for v in rt.lines.get('VERDICT', [])}
        if len(vs) != len(part):
            raise ToolError('FMLListing: %d verdicts for %d listings' % (len(vs), len(part)))
        for rec in part:
            v = vs[rec['id']]['verdict']
            counts[v] = counts.get(v, 0) + 1
            if v == 'out-of-scope':
                continue
            chk.traces += 1
            chk.count(hashlib.sha1(bytes(rec['bytes'])).hexdigest())
            if v != 'ok':
                chk.violation('%s: listing %s' % (names[rec['id']], v),
                              {'program': names[rec['id']], 'bytes': rec['bytes'][:4000], 'listing_text': recs[rec['id']]['text'][:3000], 'verdict': v, 'signature': {'kind': 'listing', 'verdict': v}})
    chk.notes['verdict_counts'] = counts
    chk.sample({'program': names[0], 'listing_head': recs[0]['text'][:300]})
    chk.sample({'program': names[len(recs) - 1], 'listing_head': recs[-1]['text'][:200]})
    chk.assumptions = ['TLC, Json module', 'the line lexer of the driver (tolerant in whitespace, leading zeros, section order); a benign reformatting of the listing it cannot lex would be reported']
    rm(wd)
    return chk.finish()
