"""property id -> check function"""
import json, sys
import checks_bytecode, checks_source, checks_vm, checks_io

CHECKS = {
    'C02': checks_bytecode.c02,
    'C03': checks_bytecode.c03,
    'C04': checks_bytecode.c04,
    'C01': checks_source.c01,
    'C05': checks_vm.c05,
    'C10': checks_source.c10,
    'C11': checks_io.c11,
    'C12': checks_source.c12,
    'C13': checks_source.c13,
    'C14': checks_source.c14,
    'C06': checks_io.c06,
    'C07': checks_io.c07,
    'C08': checks_io.c08,
    'C09': checks_vm.c09,
    'C15': checks_vm.c15,
    'C16': checks_vm.c16,
    'C17': checks_io.c17,
}


def replay(pid, path):
    """re-run the single case recorded in a replay file against the current tree and show what happens"""
    import replaytool
    return replaytool.replay(pid, path)
