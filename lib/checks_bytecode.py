"""C02, C03, C04, C17: checks over the bytes / programs the toolchain writes and reads."""
import os, json, random
from common import *
import pool

DUMMY_PROG = {'consts': [], 'globals': [], 'entry': 0, 'codelen': 0}


def compile_pool(exe, progs, wd, want, tag, budget=20000):
    recs = [{'id': i, 'text': p['text'], 'want': want, 'budget': budget} for i, p in enumerate(progs)]
    return run_harness(exe, 'run', recs, wd, tag=tag)


def bytecode_records(outs, with_prog=True):
    """harness outputs -> TraceBytecode input records (only programs that compiled and serialized)"""
    recs = []
    for i, o in enumerate(outs):
        if o.get('crash') is not None or 'bytes' not in o:
            continue
        run = o.get('run') or {}
        rd = o.get('run_direct')
        recs.append({
            'id': i, 'bytes': o['bytes'],
            'hasprog': bool(with_prog and 'prog' in o), 'prog': o.get('prog', DUMMY_PROG),
            'load': o.get('load', 'none'), 'prog2': o.get('prog2', DUMMY_PROG), 'bytes2': o.get('bytes2', []),
            'hasdirect': rd is not None and 'run' in o and not run.get('diverged') and not rd.get('diverged'),
            'out': run.get('out', []), 'ok': bool(run.get('ok', False)),
            'outd': (rd or {}).get('out', []), 'okd': bool((rd or {}).get('ok', False)),
        })
    return recs


def judge_bytecode(chk, recs, wd, tag, names, clauses=None, batch=400, timeout=1200, heap='4g'):
    """run TraceBytecode over records; report failed clauses (restricted to `clauses` if given)"""
    n = 0
    for b in range(0, len(recs), batch):
        part = recs[b:b + batch]
        path = os.path.join(wd, '%s.%d.ndjson' % (tag, b))
        write_ndjson(path, part)
        r = tlc_or_die('TraceBytecode', env={'RECS': path}, workers=8, timeout=timeout, tag=tag, heap=heap)
        chk.add_tlc(r)
        vs = r.lines.get('VERDICT', [])
        if len({v['id'] for v in vs}) != len(part):
            raise ToolError('TraceBytecode: %d verdicts for %d records' % (len(vs), len(part)))
        byid = {x['id']: x for x in part}
        for v in vs:
            n += 1
            failed = [c for c in v['failed'] if clauses is None or c in clauses]
            if failed:
                rec = byid[v['id']]
                chk.violation('%s: %s' % (names[v['id']]['name'], ','.join(sorted(failed))),
                              {'program': names[v['id']]['name'], 'source': names[v['id']].get('text'), 'failed_clauses': sorted(failed),
                               'bytes': rec['bytes'], 'signature': {'clauses': sorted(failed)}})
    return n


def tier_sizes(tier, quick, thorough):
    return thorough if tier == 'thorough' else quick


import subprocess


def big_files_via_cli(chk, exe, wd, huge_pool=False):
    """programs larger than the file buffers saved and loaded through the real CLI, compared with the in-memory cycle (FMLObservations)"""
    # large files through the real command line: `fml compile -o` / `fml execute` / `fml disassemble` read and write through buffered files
    import subprocess
    obs = []
    bigs = pool.big_programs(huge_pool)
    bouts = compile_pool(exe, bigs, wd, ['run', 'bytes2'], 'c03big', budget=100000)
    for i, o in enumerate(bouts):
        if 'bytes' not in o:
            if 'expect' in bigs[i]:
                chk.violation('%s: a valid program could not be compiled and serialized (%s)' % (bigs[i]['name'], str(o.get('compile_msg') or o.get('crash') or o.get('compile') or '')[:200]),
                              {'program': bigs[i]['name'], 'source': bigs[i]['text'][-200:], 'observed': {k: o.get(k) for k in ('parse', 'compile', 'crash', 'compile_msg') if k in o},
                               'signature': {'kind': 'big-program-refused', 'program': bigs[i]['name']}})
            continue
        name = bigs[i]['name']
        run = o.get('run') or {}
        if 'expect' in bigs[i] and (not run.get('ok') or bytes(run.get('out', [])) != bigs[i]['expect']):
            chk.violation('%s: the program saved and loaded in-process printed %r, not %r' % (name, bytes(run.get('out', []))[:60], bigs[i]['expect']),
                          {'program': name, 'source': bigs[i]['text'][-200:], 'run': {'ok': run.get('ok'), 'out': run.get('out', [])[:200]},
                           'signature': {'kind': 'big-program-outcome', 'program': name}})
        obs.append({'key': name + ' :: outcome', 'val': {'ok': bool(run.get('ok')), 'out': hashlib.sha1(bytes(run.get('out', []))).hexdigest()}, 'cfg': 'in-process load from memory'})
        obs.append({'key': name + ' :: bytes', 'val': {'d': hashlib.sha1(bytes(o['bytes'])).hexdigest()}, 'cfg': 'in-process serialize to memory'})
        obs.append({'key': name + ' :: bytes', 'val': {'d': hashlib.sha1(bytes(o.get('bytes2', []))).hexdigest()}, 'cfg': 'in-process save of the loaded program'})
        src = os.path.join(wd, 'big%d.fml' % i)
        open(src, 'w', encoding='utf-8').write(bigs[i]['text'])
        bc = os.path.join(wd, 'big%d.bc' % i)
        open(bc, 'wb').write(bytes(o['bytes']))
        p1 = subprocess.run([exe, 'execute', bc], stdout=subprocess.PIPE, stderr=subprocess.PIPE, timeout=120)
        obs.append({'key': name + ' :: outcome', 'val': {'ok': p1.returncode == 0, 'out': hashlib.sha1(p1.stdout).hexdigest()}, 'cfg': '`fml execute FILE` (buffered file reader)'})
        p2 = subprocess.run([exe, 'execute'], stdin=open(bc, 'rb'), stdout=subprocess.PIPE, stderr=subprocess.PIPE, timeout=120)
        obs.append({'key': name + ' :: outcome', 'val': {'ok': p2.returncode == 0, 'out': hashlib.sha1(p2.stdout).hexdigest()}, 'cfg': '`fml execute` < stdin'})
        js = os.path.join(wd, 'big%d.json' % i)
        bc2 = os.path.join(wd, 'big%d.cli.bc' % i)
        if subprocess.run([exe, 'parse', src, '--format', 'json', '-o', js], stdout=subprocess.PIPE, stderr=subprocess.PIPE).returncode == 0 and \
                subprocess.run([exe, 'compile', js, '-o', bc2], stdout=subprocess.PIPE, stderr=subprocess.PIPE).returncode == 0:
            obs.append({'key': name + ' :: bytes', 'val': {'d': hashlib.sha1(open(bc2, 'rb').read()).hexdigest()}, 'cfg': '`fml compile -o FILE` (buffered file writer)'})
        chk.count(hashlib.sha1(bytes(o['bytes'])).hexdigest())
    if huge_pool:
        # constant pools of every size 4..519 (every value of the file's first byte) through the real loader entry points of the CLI
        from concurrent.futures import ThreadPoolExecutor
        sw = pool.sweep_programs()
        souts = compile_pool(exe, sw, wd, ['run'], 'c03sw', budget=5000)

        def one(i):
            o = souts[i]
            if 'bytes' not in o:
                return [{'key': sw[i]['name'] + ' :: outcome', 'val': {'ok': True, 'out': hashlib.sha1(sw[i]['expect']).hexdigest()}, 'cfg': 'prescribed output'},
                        {'key': sw[i]['name'] + ' :: outcome', 'val': {'ok': False, 'out': ''}, 'cfg': 'in-process compile + serialize (refused)'}]
            bc = os.path.join(wd, 'sw%d.bc' % i)
            open(bc, 'wb').write(bytes(o['bytes']))
            run = o.get('run') or {}
            r = [{'key': sw[i]['name'] + ' :: outcome', 'val': {'ok': True, 'out': hashlib.sha1(sw[i]['expect']).hexdigest()}, 'cfg': 'prescribed output'},
                 {'key': sw[i]['name'] + ' :: outcome', 'val': {'ok': bool(run.get('ok')), 'out': hashlib.sha1(bytes(run.get('out', []))).hexdigest()}, 'cfg': 'in-process load from memory'}]
            p1 = subprocess.run([exe, 'execute', bc], stdout=subprocess.PIPE, stderr=subprocess.PIPE, timeout=120)
            r.append({'key': sw[i]['name'] + ' :: outcome', 'val': {'ok': p1.returncode == 0, 'out': hashlib.sha1(p1.stdout).hexdigest()}, 'cfg': '`fml execute FILE`'})
            p2 = subprocess.run([exe, 'execute'], stdin=open(bc, 'rb'), stdout=subprocess.PIPE, stderr=subprocess.PIPE, timeout=120)
            r.append({'key': sw[i]['name'] + ' :: outcome', 'val': {'ok': p2.returncode == 0, 'out': hashlib.sha1(p2.stdout).hexdigest()}, 'cfg': '`fml execute` < stdin'})
            if i % 40 == 11:
                # other ways of naming the file: a symbolic link, a pipe (process substitution), /dev/stdin
                ln = os.path.join(wd, 'sw%d.link' % i)
                if not os.path.exists(ln):
                    os.symlink(bc, ln)
                noext = os.path.join(wd, 'noext%d' % i)
                open(noext, 'wb').write(bytes(o['bytes']))
                open(noext + '.bc', 'wb').write(bytes(souts[(i + 1) % len(souts)].get('bytes', [])))
                for cfgname, cmd in (('`fml execute SYMLINK`', '"%s" execute "%s"' % (exe, ln)), ('`fml execute <(cat FILE)` (a pipe)', '"%s" execute <(cat "%s")' % (exe, bc)),
                                     ('`fml execute NAME` (no extension; NAME.bc exists and holds another program)', '"%s" execute "%s"' % (exe, noext)),
                                     ('`cat FILE | fml execute /dev/stdin`', 'cat "%s" | "%s" execute /dev/stdin' % (bc, exe))):
                    pr = subprocess.run(['bash', '-c', cmd], cwd=wd, stdout=subprocess.PIPE, stderr=subprocess.PIPE, timeout=60)
                    r.append({'key': sw[i]['name'] + ' :: outcome', 'val': {'ok': pr.returncode == 0, 'out': hashlib.sha1(pr.stdout).hexdigest()}, 'cfg': cfgname})
            return r
        with ThreadPoolExecutor(max_workers=12) as ex:
            for r in ex.map(one, range(len(sw))):
                obs += r
        bigs = bigs + sw
        chk.notes['pool_size_sweep'] = len(sw)
    if obs:
        opath = os.path.join(wd, 'bigobs.ndjson')
        write_ndjson(opath, obs)
        ro = tlc_or_die('FMLObservations', env={'OBS': opath}, workers=1, timeout=600)
        chk.add_tlc(ro)
        if not ro.lines.get('DONE'):
            raise ToolError('FMLObservations did not reach the end of the history')
        for inc in ro.lines.get('INCONSISTENT', []):
            a, b = obs[inc['first'] - 1], obs[inc['second'] - 1]
            chk.violation('%s differs between [%s] and [%s]' % (inc['key'], a['cfg'], b['cfg']),
                          {'program': inc['key'].split(' :: ')[0], 'source': [x for x in bigs if x['name'] == inc['key'].split(' :: ')[0]][0]['text'][:800], 'first': a, 'second': b,
                           'signature': {'kind': 'cli-load-save', 'what': inc['key'].split(' :: ')[1]}})
        chk.traces += len(obs)
    return len(bigs)


# ------------------------------------------------------------------------------------------------ C04
def spec_generated_programs(chk, wd, tier):
    """spec -> impl: TLC enumerates abstract programs over every tag/opcode/width boundary (MC_Format),
    checks Decode(Encode(Q)) = Q on the spec itself and prints each Q with its bytes."""
    r = tlc_or_die('MC_Format', env={'FMT_DEPTH': '2' if tier == 'thorough' else '1'}, workers=8, timeout=1800)
    chk.add_tlc(r)
    bad = r.lines.get('SPECBAD', [])
    if bad:
        raise ToolError('MC_Format: the specification itself is not inverse on %s' % bad[:2])
    return r.lines.get('REPLAY', [])


def c04(tier):
    chk = Check('C04', tier)
    chk.rule = ('impl->spec: every program of the pool (in-repo corpus + seeded random programs + construct-in-context family) is compiled and '
                'serialized by the real toolchain; TLC decodes the bytes with the independent TLA+ reader and compares them with Encode(projection of '
                'the in-memory program). spec->impl: TLC-enumerated programs over every tag/opcode/width boundary are encoded by the TLA+ writer and '
                'loaded by the real reader; files larger than the 8 KiB buffers are additionally written and read through the real CLI. distinct_nontrivial = distinct byte strings judged.')
    exe = build('debug')
    wd = scratch('c04')
    progs = pool.corpus() + pool.random_programs(tier_sizes(tier, 120, 3000)) + pool.construct_family(limit=tier_sizes(tier, 150, None))
    outs = compile_pool(exe, progs, wd, ['prog', 'prog2', 'bytes2'], 'c04')
    recs = bytecode_records(outs)
    for r in recs:
        chk.count(hashlib.sha1(bytes(r['bytes'])).hexdigest())
    clauses = {'decodable', 'no_trailing', 'denotes_prog', 'writer_layout', 'loads', 'loaded_same'}
    chk.traces += judge_bytecode(chk, recs, wd, 'c04a', progs, clauses)
    for r in recs[:3]:
        chk.sample({'program': progs[r['id']]['name'], 'bytes_len': len(r['bytes']), 'bytes_head': r['bytes'][:24]})
    # spec -> impl
    gen = spec_generated_programs(chk, wd, tier)
    xrecs = [{'id': i, 'bytes': g['bytes'], 'want': ['prog2', 'bytes2']} for i, g in enumerate(gen)]
    xouts = run_harness(exe, 'exec', xrecs, wd, tag='c04x')
    names = [{'name': 'spec-generated:%d' % i, 'text': None} for i in range(len(gen))]
    for i, o in enumerate(xouts):
        o['bytes'] = gen[i]['bytes']
    xr = bytecode_records(xouts, with_prog=False)
    for r in xr:
        chk.count(hashlib.sha1(bytes(r['bytes'])).hexdigest())
    chk.traces += judge_bytecode(chk, xr, wd, 'c04b', names, {'decodable', 'no_trailing', 'loads', 'loaded_same'})
    if gen:
        chk.sample({'program': 'spec-generated:0', 'bytes': gen[0]['bytes'][:40]})
    # the largest constant pool the format can hold (65535 entries; thorough) and one entry more (which a writer must refuse, never wrap): compiled by the release build (the compiler's pool lookup is quadratic)
    def pool_of(n):
        return {'name': 'limit:pool-of-%d-constants' % n, 'text': '; '.join(str(k) for k in range(1000, 1000 + n - 4)) + '; print("~\\n", 1)', 'ast': None}
    xl = [pool_of(65536)] + ([pool_of(65535)] if tier == 'thorough' else [])
    louts = compile_pool(build('release'), xl, wd, ['prog', 'prog2', 'bytes2'], 'c04xl', budget=10)
    lrecs = bytecode_records(louts)
    chk.notes['pool_limit_programs'] = {xl[i]['name']: ('serialized' if 'bytes' in o and o.get('crash') is None else 'refused') for i, o in enumerate(louts)}
    if tier == 'thorough' and chk.notes['pool_limit_programs'].get('limit:pool-of-65535-constants') != 'serialized':
        chk.violation('limit:pool-of-65535-constants: a program the format can hold was refused', {'program': 'limit:pool-of-65535-constants', 'signature': {'kind': 'limit-refused'}})
    chk.traces += judge_bytecode(chk, lrecs, wd, 'c04l', xl, clauses, batch=1, timeout=5400, heap='8g')      # (decoding 65 535 constants and a 131 000-instruction method takes TLC some minutes)
    chk.notes['large_files_through_cli'] = big_files_via_cli(chk, exe, wd, huge_pool=(tier == 'thorough'))
    chk.notes['spec_generated_programs'] = len(gen)
    chk.notes['compiled_programs'] = len(recs)
    chk.assumptions = ['TLC, the Json/IOUtils community modules', 'the harness projection absprog.rs of an in-memory Program']
    rm(wd)
    return chk.finish()


# ------------------------------------------------------------------------------------------------ C03
def c03(tier):
    chk = Check('C03', tier)
    chk.rule = ('every program of the pool is compiled, saved, loaded, saved again and executed with and without the byte round trip; TLC judges '
                'loaded = Decode(bytes) = written program, bytes2 = bytes, same output/status; plus spec-generated structural programs '
                '(non-ASCII/empty strings, extreme ints, empty classes, many methods) loaded and re-saved; programs larger than the 8 KiB file buffers saved and loaded through the real '
                '`fml compile -o` / `fml execute` (file and stdin) and compared with the in-memory cycle by FMLObservations. distinct_nontrivial = distinct byte strings.')
    exe = build('debug')
    wd = scratch('c03')
    progs = pool.corpus() + pool.random_programs(tier_sizes(tier, 120, 3000), base_seed=seed() * 7919 + 17) + pool.construct_family(limit=tier_sizes(tier, 100, None))
    outs = compile_pool(exe, progs, wd, ['prog', 'prog2', 'bytes2', 'run', 'direct'], 'c03')
    recs = bytecode_records(outs)
    for r in recs:
        chk.count(hashlib.sha1(bytes(r['bytes'])).hexdigest())
    clauses = {'decodable', 'denotes_prog', 'loads', 'loaded_same', 'loaded_layout', 'loaded_labels', 'resave_same', 'same_behaviour'}
    chk.traces += judge_bytecode(chk, recs, wd, 'c03a', progs, clauses)
    for r in recs[:3]:
        chk.sample({'program': progs[r['id']]['name'], 'bytes_len': len(r['bytes']), 'out_len': len(r['out']), 'ok': r['ok']})
    gen = spec_generated_programs(chk, wd, tier)
    xrecs = [{'id': i, 'bytes': g['bytes'], 'want': ['prog2', 'bytes2']} for i, g in enumerate(gen)]
    xouts = run_harness(exe, 'exec', xrecs, wd, tag='c03x')
    names = [{'name': 'spec-generated:%d' % i, 'text': None} for i in range(len(gen))]
    for i, o in enumerate(xouts):
        o['bytes'] = gen[i]['bytes']
    xr = bytecode_records(xouts, with_prog=False)
    for r in xr:
        chk.count(hashlib.sha1(bytes(r['bytes'])).hexdigest())
    chk.traces += judge_bytecode(chk, xr, wd, 'c03b', names, {'loads', 'loaded_same', 'loaded_layout', 'loaded_labels', 'resave_same'})
    # shapes of CODE no compiler emits but the format allows (every instruction pair over a valid + invalid alphabet, e.g. a jump to the label that follows it;
    # entry method first; duplicate label texts; the entry among the globals): loading and saving them again must be the identity too
    gen2 = []
    for mod, env in (('MC_InstrSeqs', {'SEQLEN': '2'}), ('MC_DupLabels', {}), ('MC_EntryCall', {})):
        rg = tlc_or_die(mod, env=env, workers=4, timeout=900)
        chk.add_tlc(rg)
        gen2 += [{'name': '%s:%s' % (mod, json.dumps(g.get('seq', g.get('v')), sort_keys=True)), 'bytes': g['bytes']} for g in rg.lines.get('REPLAY', [])]
    youts = run_harness(exe, 'exec', [{'id': i, 'bytes': g['bytes'], 'want': ['prog2', 'bytes2']} for i, g in enumerate(gen2)], wd, tag='c03y')
    for i, o in enumerate(youts):
        o['bytes'] = gen2[i]['bytes']
    yr = bytecode_records(youts, with_prog=False)
    for r in yr:
        chk.count(hashlib.sha1(bytes(r['bytes'])).hexdigest())
    chk.traces += judge_bytecode(chk, yr, wd, 'c03y', [{'name': g['name'], 'text': None} for g in gen2], {'loads', 'loaded_same', 'loaded_layout', 'loaded_labels', 'resave_same'})
    chk.notes['code_shapes_no_compiler_emits'] = len(gen2)
    nbig = big_files_via_cli(chk, exe, wd, huge_pool=True)
    chk.notes['large_files_through_cli'] = nbig
    chk.notes['spec_generated_programs'] = len(gen)
    chk.notes['compiled_programs'] = len(recs)
    chk.assumptions = ['TLC, the Json/IOUtils community modules', 'the harness projection absprog.rs of an in-memory Program']
    rm(wd)
    return chk.finish()


# ------------------------------------------------------------------------------------------------ C02
def last_is_fun(ast):
    return ast is not None and ast['es'] and ast['es'][-1]['t'] == 'Fun'


def c02(tier):
    chk = Check('C02', tier)
    chk.rule = ('every construct x context x {top level, top-level block, function body, method body} (+ all ordered construct pairs in the thorough tier), '
                'seeded random programs incl. ill-typed ones, the corpus, programs at the format limits (255 parameters, 300 locals/labels) and just beyond them (which may be refused) are compiled by the real compiler; TLC decodes the bytes, checks WellFormed '
                'and explores every CFG path x stack depth of every method (FMLVerifier). distinct_nontrivial = distinct compiled methods explored.')
    exe = build('debug')
    wd = scratch('c02')
    progs = pool.corpus() + pool.over_limit_programs() + pool.sandwich_programs() + pool.let_slot_programs() + pool.construct_family(pairs=(tier == 'thorough'), limit=tier_sizes(tier, 900, None)) + \
        pool.random_programs(tier_sizes(tier, 150, 4000), base_seed=seed() * 104729 + 5, fault_rate=0.15)
    outs = compile_pool(exe, progs, wd, ['ast', 'prog'], 'c02')
    recs = []
    for i, o in enumerate(outs):
        if o.get('crash') is not None or 'bytes' not in o:
            continue
        ast = progs[i]['ast'] or o.get('ast')
        recs.append({'id': i, 'bytes': o['bytes'], 'enddepth': 0 if last_is_fun(ast) else 1})
    chk.notes['compiled_programs'] = len(recs)
    chk.notes['rejected_by_compiler'] = len(progs) - len(recs)
    started = set()
    batch = 130
    from concurrent.futures import ThreadPoolExecutor

    def verify(b):
        part = recs[b:b + batch]
        path = os.path.join(wd, 'c02.%d.ndjson' % b)
        write_ndjson(path, part)
        return part, tlc_or_die('FMLVerifier', env={'BCS': path}, workers=3, timeout=1800, tag='c02v%d' % b)
    # the per-batch tables (decoding, reference depth maps, WellFormed) are computed by TLC's main thread: several JVMs side by side
    with ThreadPoolExecutor(max_workers=5) as ex:
        runs = list(ex.map(verify, range(0, len(recs), batch)))
    for part, r in runs:
        chk.add_tlc(r)
        for mline in r.lines.get('METHOD', []):
            started.add((mline['id'], mline['m']))
        badids = {}
        for bl in r.lines.get('BAD', []):
            badids.setdefault(bl['id'], []).append(bl)
        for pid_, bls in badids.items():
            bl = sorted(bls, key=lambda x: (x['m'], x['pc']))[0]
            chk.violation('%s: %s at method #%d pc %d depth %d' % (progs[pid_]['name'], bl['verdict'], bl['m'], bl['pc'], bl['d']),
                          {'program': progs[pid_]['name'], 'source': progs[pid_]['text'], 'verdict': bl, 'all': bls[:10],
                           'signature': {'verdict': bl['verdict']}})
        # every program is either covered (all its methods started) or reported
        ids_here = {x['id'] for x in part}
        covered = {i for (i, m) in started} | set(badids.keys())
        missing = ids_here - covered
        if missing:
            raise ToolError('FMLVerifier did not cover programs %s' % sorted(missing)[:5])
    if tier == 'thorough':
        # design level: what the specification's own compiler (FMLCompiler, both schemes) emits is balanced too (a failure here is a defect of the specification)
        import srctrace
        eprogs = pool.construct_family(limit=600, rng=random.Random(seed() + 9))
        erecs = []
        for i, p in enumerate(eprogs):
            rec = srctrace.source_record(i, p['ast'], 'ok', [])
            rec['budget'] = 20000
            erecs.append(rec)
        zb = []
        for b in range(0, len(erecs), 300):
            epath = os.path.join(wd, 'c02equiv.%d.ndjson' % b)
            write_ndjson(epath, erecs[b:b + 300])
            re_ = tlc_or_die('MC_Equiv', env={'PROGS': epath}, workers=8, timeout=3000, tag='c02e')
            chk.add_tlc(re_)
            zb += [v for v in re_.lines.get('VERDICT', []) if v['bytes']]
        zpath = os.path.join(wd, 'c02equiv.bcs.ndjson')
        write_ndjson(zpath, [{'id': j, 'bytes': v['bytes'], 'enddepth': 1} for j, v in enumerate(zb)])
        rz = tlc_or_die('FMLVerifier', env={'BCS': zpath}, workers=8, timeout=3000, tag='c02z')
        chk.add_tlc(rz)
        if rz.lines.get('BAD'):
            raise ToolError('FMLCompiler emits unbalanced code (specification defect): %s' % rz.lines['BAD'][:2])
        chk.notes['spec_compiler_outputs_verified'] = len(zb)
    # code ownership (every instruction belongs to exactly one method) from the in-memory ranges
    brecs = bytecode_records(outs)
    chk.traces += judge_bytecode(chk, brecs, wd, 'c02o', progs, {'owns_code', 'decodable'})
    for k in started:
        chk.count(k)
    chk.evaluations = len(recs)
    for r in recs[:3]:
        chk.sample({'program': progs[r['id']]['name'], 'source': progs[r['id']]['text'][:200], 'enddepth': r['enddepth']})
    chk.assumptions = ['TLC', 'the independent TLA+ decoder reads what the real loader would read (bound by C04)']
    rm(wd)
    return chk.finish()
