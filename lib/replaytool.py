"""bin/check <ID> --replay <file>: re-run the single case recorded in a replay file against /repo's current tree.
Exit 1 + VIOLATION line if it still violates, 0 if it no longer does, 2 on tool errors."""
import json, os, sys
from common import *
import srctrace, vmtrace


def replay(pid, path):
    r = json.load(open(path))
    print('replaying %s: %s' % (path, r.get('what', '')))
    exe = build('debug')
    wd = scratch('replay')
    chk = Check(pid, 'quick')
    chk.findings = []
    try:
        if 'source' in r and r.get('source') and pid in ('C01', 'C09', 'C10', 'C12', 'C13', 'C14', 'C15', 'C16'):
            from checks_source import judge_programs
            prog = {'name': r.get('program', 'replayed program'), 'text': r['source'], 'ast': None}
            exes = [exe] + ([build('release')] if pid == 'C09' else [])
            for e in exes:
                judge_programs(chk, e, [prog], wd, 'rp', cli_sample=1)
        elif 'bytes' in r and pid in ('C05', 'C15'):
            outs = run_harness(exe, 'exec', [{'id': 0, 'bytes': r['bytes'], 'want': ['run', 'events', 'final'], 'budget': 50000}], wd, tag='rp')
            outs[0]['bytes'] = r['bytes']
            tr = vmtrace.to_trace_record(0, outs[0])
            vs, rs = vmtrace.validate([tr], wd, tag='rp')
            from checks_vm import report_vm
            report_vm(chk, {0: r.get('program', 'replayed bytes')}, [tr], vs)
        elif pid in ('C02', 'C03', 'C04', 'C17') and r.get('source'):
            import checks_bytecode as cb
            progs = [{'name': r.get('program', 'replayed program'), 'text': r['source'], 'ast': None}]
            outs = cb.compile_pool(exe, progs, wd, ['ast', 'prog', 'prog2', 'bytes2', 'run', 'direct', 'listing'], 'rp')
            if pid == 'C02':
                o = outs[0]
                if 'bytes' in o:
                    p = os.path.join(wd, 'rp.ndjson')
                    write_ndjson(p, [{'id': 0, 'bytes': o['bytes'], 'enddepth': 0 if cb.last_is_fun(o.get('ast')) else 1}])
                    t = tlc_or_die('FMLVerifier', env={'BCS': p}, workers=2)
                    for bl in t.lines.get('BAD', []):
                        chk.violation('%s: %s at method #%d pc %d' % (progs[0]['name'], bl['verdict'], bl['m'], bl['pc']), {'source': r['source'], 'verdict': bl})
            cb.judge_bytecode(chk, cb.bytecode_records(outs), wd, 'rp', progs)
        else:
            print('this kind of replay file is informational: it records the input, the schedule/configuration and both observations; '
                  're-run `bin/check %s` to see whether the violation persists' % pid)
            print(json.dumps({k: v for k, v in r.items() if k not in ('bytes',)}, indent=1)[:3000])
            return 0
    finally:
        rm(wd)
    for what, p in chk.violations:
        print('VIOLATION property=%s replay=%s  (%s)' % (pid, p, what))
    if not chk.violations:
        print('the recorded case no longer violates %s on the current tree' % pid)
    return 1 if chk.violations else 0
