"""impl -> spec: validate recorded VM executions against FMLVM with TLC (TraceVM.tla)."""
import os, time, json
from concurrent.futures import ThreadPoolExecutor
from common import tlc_or_die, write_ndjson, ToolError, log

EMPTY_FIN = {'globals': [], 'heap': [], 'stack': [], 'fd': 0}


def to_trace_record(i, rec, ref=None, chkdepth=False):
    """harness output record (run/exec with want events) -> TraceVM input record"""
    run = rec.get('run') or {}
    fin = run.get('final')
    return {
        'id': i,
        'bytes': rec.get('bytes', []),
        'load': rec.get('load', 'none'),
        'init': run.get('init', 'none'),
        'events': run.get('events', []),
        'out': run.get('out', []),
        'ok': bool(run.get('ok', False)),
        'diverged': bool(run.get('diverged', False)),
        'hasfin': fin is not None,
        'fin': {k: fin[k] for k in ('globals', 'heap', 'stack', 'fd')} if fin is not None else EMPTY_FIN,
        'chkdepth': bool(chkdepth), 'hasref': ref is not None, 'refout': ref[1] if ref else [], 'refok': bool(ref[0]) if ref else False,
    }


def validate(records, workdir, tag='vm', max_events=20000, jvms=6, workers=3, timeout=1200):
    """records: list of TraceVM input records (ids are positions). Returns (verdicts by id, [TLCResult])."""
    batches = []
    cur, n = [], 0
    for r in records:
        k = len(r['events']) + 50
        if cur and n + k > max_events:
            batches.append(cur)
            cur, n = [], 0
        cur.append(r)
        n += k
    if cur:
        batches.append(cur)
    results = []

    def one(bi):
        path = os.path.join(workdir, '%s.batch%d.ndjson' % (tag, bi))
        write_ndjson(path, batches[bi])
        t0 = time.time()
        r = tlc_or_die('TraceVM', env={'TRACES': path}, workers=workers, timeout=timeout, tag='%s%d' % (tag, bi))
        vs = r.lines.get('VERDICT', [])
        if len(vs) != len(batches[bi]):
            raise ToolError('TraceVM produced %d verdicts for %d traces (batch %d)\n%s' % (len(vs), len(batches[bi]), bi, r.stdout[-2000:]))
        log('[tracevm %s batch %d] %d traces, %d events, %.1fs' % (tag, bi, len(batches[bi]), sum(len(x['events']) for x in batches[bi]), time.time() - t0))
        return r, vs
    with ThreadPoolExecutor(max_workers=jvms) as ex:
        outs = list(ex.map(one, range(len(batches))))
    verdicts = {}
    for r, vs in outs:
        results.append(r)
        for v in vs:
            verdicts[v['id']] = v
    return verdicts, results
