"""Normalized AST -> FML source text (the concrete syntax of /repo/src/fml.lalrpop).

Two modes: minimal parentheses (precedence-aware) and full parentheses; optional decoration of
token boundaries with whitespace / comments.  This is a driver component: it only produces
inputs; the expected tree is the AST it was given and the comparison is made by TLC."""
import random

OPS = {'|': 1, '&': 2, '==': 3, '!=': 3, '<': 3, '>': 3, '<=': 3, '>=': 3, '+': 4, '-': 4, '*': 5, '/': 5, '%': 5}
KEYWORDS = {'begin', 'end', 'if', 'then', 'else', 'let', 'null', 'print', 'object', 'extends', 'while', 'do',
            'function', 'array', 'true', 'false'}


def fmt_literal(fbytes):
    return '"' + bytes(fbytes).decode('utf-8') + '"'


def ends_open(e):
    t = e['t']
    if t == 'If':
        if e.get('_noelse'):
            return True
        return ends_open(e['b'])
    if t in ('Let', 'Assign', 'SetField', 'SetIndex'):
        return ends_open(e['e'])
    if t == 'While':
        return ends_open(e['b'])
    if t == 'Fun':
        return ends_open(e['body'])
    return False


class Unparser:
    def __init__(self, full=False, rng=None, elseless=True, infix=True):
        self.full = full
        self.rng = rng
        self.elseless = elseless      # print `if c then a` when the alternative is Null
        self.infix = infix

    # --- token-list producers -------------------------------------------------
    def top(self, e):
        toks = []
        for i, x in enumerate(e['es']):
            if i:
                toks.append(';')
            toks += self.expr(x, toplevel=True)
        return toks

    def is_infix(self, e):
        return e['t'] == 'MCall' and e['n'] in OPS and len(e['args']) == 1 and self.infix and not e.get('_dot')

    def is_accessible(self, e):
        t = e['t']
        if t in ('Int', 'Bool', 'Null', 'Var', 'Block', 'Call', 'Array', 'Index'):
            return True
        if t == 'MCall' and not self.is_infix(e):
            return True
        return False

    def paren(self, toks):
        return ['('] + toks + [')']

    def expr(self, e, toplevel=False):
        """Expression<"open"> position."""
        toks = self.expr0(e)
        if self.full and not toplevel and e['t'] not in ('Fun',):
            return self.paren(toks)
        return toks

    def closed(self, e):
        toks = self.expr(e)
        if not self.full and ends_open(e):
            return self.paren(toks)
        return toks

    def args(self, es):
        toks = []
        for i, x in enumerate(es):
            if i:
                toks.append(',')
            toks += self.expr(x)
        return toks

    def base(self, o):
        """object position of .field / .method() / [index]: Accessible (. ident)*"""
        if o['t'] == 'GetField':
            return self.base(o['o']) + ['.', o['n']]
        if self.is_accessible(o):
            return self.expr0(o)
        return self.paren(self.expr0(o))

    def operand(self, e, level):
        """operand of a binary operator at precedence `level` (minimum level allowed unparenthesised)"""
        if self.is_infix(e):
            lv = OPS[e['n']]
            toks = self.operand(e['o'], lv) + [e['n']] + self.operand(e['args'][0], lv + 1)
            return toks if lv >= level and not self.full else self.paren(toks)
        if e['t'] == 'GetField' or self.is_accessible(e):
            toks = self.base(e) if e['t'] == 'GetField' else self.expr0(e)
            return self.paren(toks) if self.full and e['t'] not in ('Int', 'Bool', 'Null', 'Var') else toks
        return self.paren(self.expr0(e))

    def expr0(self, e):
        t = e['t']
        if t == 'Int':
            return [str(e['v'])]
        if t == 'Bool':
            return ['true' if e['v'] else 'false']
        if t == 'Null':
            return ['null'] if not e.get('_beginend') else ['begin', 'end']
        if t == 'Var':
            return [e['n']]
        if t == 'Let':
            return ['let', e['n'], '='] + self.expr(e['e'])
        if t == 'Assign':
            return [e['n'], '<-'] + self.expr(e['e'])
        if t == 'Block':
            toks = ['begin']
            for i, x in enumerate(e['es']):
                if i:
                    toks.append(';')
                toks += self.expr(x)
            if e.get('_trailing'):
                toks.append(';')
            return toks + ['end']
        if t == 'If':
            noelse = e['b']['t'] == 'Null' and self.elseless and not e['b'].get('_beginend') and not e.get('_else')
            e['_noelse'] = noelse
            if noelse:
                return ['if'] + self.expr(e['c']) + ['then'] + self.expr(e['a'])
            return ['if'] + self.expr(e['c']) + ['then'] + self.closed(e['a']) + ['else'] + self.expr(e['b'])
        if t == 'While':
            return ['while'] + self.expr(e['c']) + ['do'] + self.expr(e['b'])
        if t == 'Fun':
            return ['function', e['n'], '('] + self._params(e['params']) + [')', '->'] + self.expr(e['body'])
        if t == 'Call':
            return [e['n'], '('] + self.args(e['args']) + [')']
        if t == 'MCall':
            if self.is_infix(e):
                return self.operand(e, 0)
            return self.base(e['o']) + ['.', e['n'], '('] + self.args(e['args']) + [')']
        if t == 'Print':
            toks = ['print', '(', fmt_literal(e['f'])]
            for x in e['args']:
                toks.append(',')
                toks += self.expr(x)
            return toks + [')']
        if t == 'GetField':
            return self.base(e['o']) + ['.', e['n']]
        if t == 'SetField':
            return self.base(e['o']) + ['.', e['n'], '<-'] + self.expr(e['e'])
        if t == 'Index':
            return self.base(e['o']) + ['['] + self.expr(e['i']) + [']']
        if t == 'SetIndex':
            return self.base(e['o']) + ['['] + self.expr(e['i']) + [']', '<-'] + self.expr(e['e'])
        if t == 'Array':
            return ['array', '('] + self.expr(e['size']) + [','] + self.expr(e['init']) + [')']
        if t == 'Object':
            toks = ['object']
            if e['parent']['t'] != 'Null' or e.get('_extendsnull'):
                p = e['parent']
                pt = self.expr0(p)
                if self.full or not (self.is_accessible(p) or p['t'] == 'GetField'):
                    pt = self.paren(pt)
                toks += ['extends'] + pt
            toks.append('begin')
            for i, m in enumerate(e['members']):
                if i:
                    toks.append(';')
                if m['t'] == 'Let':
                    toks += ['let', m['n'], '='] + self.expr(m['e'])
                else:
                    toks += ['function', m['n'], '('] + self._params(m['params']) + [')', '->'] + self.expr(m['body'])
            return toks + ['end']
        if t == 'Top':
            return self.top(e)
        raise ValueError(t)

    def _params(self, ps):
        toks = []
        for i, p in enumerate(ps):
            if i:
                toks.append(',')
            toks.append(p)
        return toks


WS_ALPHABET = [' ', '\t', '\n', '\r\n', '  ', ' // c\n', ' /* c */ ', '/* é世 */', ' //ü \U0001F44D\n', '/* * / ** */',
               '/**/', '\n\n', ' /* a\n b */ ', '/** banner **/', '/***/', ' /****\n * x *\n ****/ ', '/* a **/ ', '// */\n', '/*//*/', '/* /* */',
               # every kind of white space the lexer skips (\s of the regex crate = Unicode White_Space): VT, FF, NEL, no-break, ogham, en quad .. hair, line / paragraph separator, narrow, math, ideographic
               '\x0b', '\x0c', '\u0085', '\u00a0', '\u1680', '\u2000', '\u2003', '\u200a', '\u2028', '\u2029', '\u202f', '\u205f', '\u3000', '\r']


def join(tokens, rng=None, decorate=0.0):
    """tokens -> text; with probability `decorate` a token boundary gets a layout string from the alphabet."""
    out = []
    for i, t in enumerate(tokens):
        if i:
            if rng is not None and rng.random() < decorate:
                w = rng.choice(WS_ALPHABET)
                if tokens[i - 1].endswith('/') and w.startswith('/'):
                    w = ' ' + w          # `/` followed by `/*` or `//` would start a comment
                out.append(w)
            else:
                out.append(' ')
        out.append(t)
    return ''.join(out)


def strip_marks(e):
    """remove the printer's private '_' annotations (so the AST compares equal to the parsed one)"""
    if isinstance(e, dict):
        return {k: strip_marks(v) for k, v in e.items() if not k.startswith('_')}
    if isinstance(e, list):
        return [strip_marks(x) for x in e]
    return e


def unparse(ast, full=False, rng=None, decorate=0.0, elseless=True, infix=True):
    u = Unparser(full=full, rng=rng, elseless=elseless, infix=infix)
    return join(u.top(ast) if ast['t'] == 'Top' else u.expr(ast, toplevel=True), rng, decorate)


def tokens_of(ast, full=False, elseless=True, infix=True):
    u = Unparser(full=full, elseless=elseless, infix=infix)
    return u.top(ast) if ast['t'] == 'Top' else u.expr(ast, toplevel=True)


import re as _re
_FIXED = {'begin', 'end', 'if', 'then', 'else', 'let', 'null', 'print', 'object', 'extends', 'while', 'do', 'function', 'array', 'true', 'false',
          ';', '(', ')', '=', '<-', '->', '.', '[', ']', ',', '|', '&', '==', '!=', '>', '<', '>=', '<=', '+', '-', '/', '*', '%'}


def classify(tok):
    """token text -> the token record FMLParser reads (None if the text is not a single token of the language)"""
    if len(tok) >= 2 and tok[0] == '"' and tok[-1] == '"':
        return {'k': 'str', 's': '', 'v': 0, 'b': list(tok[1:-1].encode('utf-8'))}
    if _re.match(r'^-?[0-9]+$', tok):
        v = int(tok)
        return {'k': 'num', 's': '' if -2**31 <= v < 2**31 else 'big', 'v': v if -2**31 <= v < 2**31 else 0, 'b': []}
    if tok in _FIXED:
        return {'k': tok, 's': '', 'v': 0, 'b': []}
    if _re.match(r'^[_A-Za-z][_A-Za-z0-9]*$', tok):
        return {'k': 'id', 's': tok, 'v': 0, 'b': []}
    return None
