"""Program pools shared by the checks: the in-repo corpus, seeded random programs, and enumerated
construct-in-context families.  Every entry: {'name', 'text', 'ast' (generator's AST or None)}."""
import random, itertools
from common import corpus_sources, seed
from gen import *
from unparse import unparse, strip_marks


EDGE = [('edge:only-function-definitions', 'function f(a) -> a + 1; function g() -> f(1)'), ('edge:empty-program', ''), ('edge:comment-only', '/* nothing */ // at all\n'),
        ('edge:ends-with-function', 'print("a\\n"); function f() -> 1'), ('edge:null-only', 'null'), ('edge:begin-end', 'begin end'),
        ('edge:array-sizes-around-65536', 'let a = array(65536, 7); a[65535] <- 1; let b = array(65535, 2); let c = array(65537, null); print("~ ~ ~ ~\\n", a[65535], a[0], b[65534], c[65536])'),
        ('edge:strings-equal-to-internal-names', 'print("if:consequent:0 if:end:1 loop:body:2 loop:condition:3 λ: ::size_0 ::array_0 ::i_0\\n"); if true then print("if:consequent:0\\n") else print("if:end:1\\n"); '
         'let i = 0; while i < 2 do begin print("loop:body:2"); print("loop:condition:3"); i <- i + 1 end; let a = array(2, begin print("::i_0"); print("::size_0"); 1 end); print("λ:~\\n", a); '
         'function f(x) -> if x then print("if:end:1") else print("if:consequent:0"); f(true); f(false); print("if:end:1")'),
        ('edge:identical-bodies-and-entry-code-inside-a-function', 'function a() -> begin print("1\\n"); print("2\\n"); print("3\\n") end; function b() -> begin print("1\\n"); print("2\\n"); print("3\\n") end; '
         'let o = object begin function m() -> 1; function n() -> 1 end; let p = object begin function m() -> 1 end; print("1\\n"); print("2\\n")'),
        ('edge:objects-with-the-same-fields-in-another-order', 'let p = object begin let x = 1; let y = 2 end; let q = object begin let y = 3; let x = 4 end; let r = object begin let c = 5; let a = 6; let b = 7 end; '
         'let s = object begin let a = 8; let b = 9; let c = 10 end; let t = object begin let b = p.x; let a = p.y; let c = q end; print("~ ~ ~ ~\\n", p.x, p.y, q.x, q.y); print("~ ~ ~ ~ ~\\n", r.a, r.c, s.a, s.c, t.a); print("~ ~\\n", t, r)'),
        ('edge:method-named-print', 'let o = object begin function print(x) -> x + 1; function get(i) -> i; function set(i, v) -> v end; print("~ ~ ~\\n", o.print(1), o[2], o[3] <- 4)'),
        ('edge:blank-program', ' \n\t\n'),
        ('edge:this-is-an-ordinary-name', 'function pick(other, this) -> this; print("~\\n", pick(1, 2)); let o = object begin let v = 1; function m() -> begin let r = this.v; begin let this = 20; r <- r + this end; r + this.v end; '
         'function n(k) -> begin let this = k; this + 1 end; function p() -> begin this <- 9; this end end; print("~ ~ ~\\n", o.m(), o.n(5), o.p()); '
         'function f(this) -> begin begin let this = 7; print("~\\n", this) end; this end; print("~\\n", f(3)); let this = 4; function g() -> this + 1; print("~ ~\\n", this, g())'),
        ('edge:null-initialised-local-in-a-loop', 'function scan(n) -> begin let i = 0; while i < n do begin let seen = null; let count = 0; if i == 1 then begin seen <- i; count <- 5 end; print("~ ~ ~\\n", i, seen, count); i <- i + 1 end; i end; '
         'print("~\\n", scan(3)); let o = object begin function m(n) -> begin let j = 0; while j < n do begin let last = null; let flag = false; if j % 2 == 0 then begin last <- j; flag <- true end; print("~ ~ ~;", j, last, flag); j <- j + 1 end; j end end; print("~\\n", o.m(4))'),
        ('edge:while-body-starting-with-a-while', 'let i = 0; while i < 2 do begin while i < 1 do i <- i + 1; let j = 0; while j < 2 do begin while j < 1 do j <- j + 1; j <- j + 1 end; if i > 0 then while false do 0; i <- i + 1 end; print("~\\n", i)'),
        ('edge:functions-without-a-block-that-declare-variables', 'function grid(n) -> array(n, array(n, 0)); function twice_plus(a) -> (let t = a * 2) + t; function pick(c) -> if c then let y = 1 else let z = 2; function rows(n) -> array(n, begin let k = n; k end); '
         'let o = object begin function row(n) -> array(n, begin n end); function keep(a) -> (let u = a) + u; function both(c) -> if c then let y = 3 else let y = 4 end; '
         'print("~ ~ ~ ~ ~ ~ ~ ~ ~\\n", grid(2), twice_plus(4), pick(true), pick(false), rows(2), o.row(2), o.keep(3), o.both(true), o.both(false))'),
        ('edge:field-and-method-of-one-name', 'let o = object begin let value = 42; function value() -> this.value; function m() -> 1; let m = 2 end; print("~ ~ ~ ~ ~\\n", o.value, o.value(), o.m, o.m(), o)')]


def _limit_programs():
    """valid programs at the documented format limits (arity is one byte, indices are 16 bits)"""
    ps = ', '.join('p%d' % i for i in range(255))
    args = ', '.join(str(i) for i in range(255))
    P = [('limit:function-255-parameters', 'function f(%s) -> p0 + p254 * 2; print("~\\n", f(%s))' % (ps, args)),
         ('limit:method-254-parameters', 'let o = object begin let k = 1; function m(%s) -> this.k + p0 + p253 end; print("~\\n", o.m(%s))' % (', '.join('p%d' % i for i in range(254)), ', '.join(str(i) for i in range(254)))),
         ('limit:print-255-arguments', 'print("%s\\n", %s)' % (' '.join(['~'] * 255), args)),
         ('limit:object-300-fields', 'let o = object begin %s end; print("~ ~\\n", o.f0, o.f299)' % '; '.join('let f%d = %d' % (i, i) for i in range(300))),
         ('limit:function-300-locals', 'function f(a) -> begin %s; v0 + v299 + a end; print("~\\n", f(1))' % '; '.join('let v%d = %d' % (i, i) for i in range(300))),
         ('limit:top-level-block-300-locals', 'begin %s; print("~\\n", v0 + v299) end' % '; '.join('let v%d = %d' % (i, i) for i in range(300))),
         ('limit:300-globals', '; '.join('let g%d = %d' % (i, i) for i in range(300)) + '; print("~\\n", g0 + g299)'),
         ('limit:300-functions', '; '.join('function f%d() -> %d' % (i, i) for i in range(300)) + '; print("~\\n", f0() + f299())'),
         ('limit:300-conditionals', 'let t = 0; ' + '; '.join('if t == %d then t <- t + 1 else t <- t + 2' % i for i in range(300)) + '; print("~\\n", t)')]
    return P


def sweep_programs(upto=516):
    """programs whose constant pools have every size from 4 to upto+3: the first bytes of a bytecode file (the pool size, low byte first) take every value"""
    return [{'name': 'sweep:%d-constants' % (n + 4), 'text': '; '.join([str(k) for k in range(1000, 1000 + n)] + ['print("sweep ~\\n", %d)' % n]), 'ast': None,
             'expect': ('sweep %d\n' % n).encode()} for n in range(upto)]


def frame_limit_programs():
    """callables whose frames have exactly 65535 and 65536 slots (slot indices are 16 bits, so both are legal); too long for TLC, observed through the CLI"""
    def lets(n): return '; '.join('let v%d = 0' % k for k in range(n))
    P = []
    for params, locals_ in ((1, 65535), (0, 65535), (1, 65534), (255, 65281)):
        ps = ', '.join('p%d' % k for k in range(params))
        args = ', '.join('40' for _ in range(params))
        P.append(('framelimit:function-%d-parameters-%d-locals' % (params, locals_), 'function f(%s) -> begin %s; v%d <- 2; %s + v%d end; print("~\\n", f(%s))' % (ps, lets(locals_), locals_ - 1, 'p0' if params else '40', locals_ - 1, args), b'42\n'))
    P.append(('framelimit:method-this-65535-locals', 'let o = object begin let k = 40; function m() -> begin %s; v65534 <- 2; this.k + v65534 end end; print("~\\n", o.m())' % lets(65535), b'42\n'))
    P.append(('framelimit:top-level-block-65535-locals', 'begin %s; v65534 <- 42; print("~\\n", v65534) end' % lets(65535), b'42\n'))
    return [{'name': n, 'text': t, 'ast': None, 'expect': e} for n, t, e in P]


def over_limit_programs():
    """programs just beyond the documented format limits: a compiler may refuse them, but whatever it emits must still be well-formed (C02 only)"""
    def args(n): return ', '.join(str(i) for i in range(n))
    def pars(n): return ', '.join('p%d' % i for i in range(n))
    P = []
    for n in (255, 256, 257):
        P.append(('overlimit:method-call-%d-arguments' % n, 'let o = object begin function m(%s) -> p0 end; print("~\\n", o.m(%s))' % (pars(n), args(n))))
        P.append(('overlimit:method-%d-parameters' % n, 'let o = object begin function m(%s) -> p0 + p%d end; o' % (pars(n), n - 1)))
    for n in (256, 257):
        P.append(('overlimit:function-%d-parameters' % n, 'function f(%s) -> p0 + p%d; print("~\\n", f(%s))' % (pars(n), n - 1, args(n))))
        P.append(('overlimit:call-%d-arguments' % n, 'function f(a) -> a; print("~\\n", f(%s))' % args(n)))
        P.append(('overlimit:print-%d-arguments' % n, 'print("%s\\n", %s)' % (' '.join(['~'] * n), args(n))))
    # forms the grammar refuses today (a definition where a value is expected): if a front end ever accepts them, what the compiler emits is judged like anything else
    for k, t in enumerate(['let f = function g() -> 1; print("~\\n", f)', 'begin function g() -> 1 end; g()', 'function h() -> begin 1; function g() -> 2 end; print("~\\n", h())',
                           'function k(a) -> a; k(function g() -> 1)', 'if true then function g() -> 1 else 2', 'let o = object begin let v = function g() -> 1 end; o',
                           'let a = array(2, function g() -> 1); a', 'while false do function g() -> 1; print("~\\n", 1 + function g() -> 1)']):
        P.append(('overgrammar:definition-in-value-position-%d' % k, t))
    return [{'name': n, 'text': t, 'ast': None} for n, t in P]


def let_slot_programs():
    """a `let` written directly in an operand slot (it declares its variable in the scope the expression stands in, not in a scope of its own), the variable used afterwards, in every frame kind"""
    slots = {
        'array-size-constant-init': 'let t = array(let v = 3, 0); print("~ ~\\n", t, v)',
        'array-size-compound-init': 'let k = 0; let t = array(let v = 3, k <- k + 2); print("~ ~\\n", t, v)',
        'call-argument': 'print("~\\n", add(let v = 4, v + 1)); print("~\\n", v)',
        'method-argument': 'print("~\\n", obj.m(let v = 4)); print("~\\n", v)',
        'receiver': 'print("~\\n", (let v = obj).m(1)); print("~\\n", v.m(2))',
        'operator-left': 'print("~\\n", (let v = 6) + 1); print("~\\n", v)',
        'operator-right': 'print("~\\n", 1 + (let v = 6)); print("~\\n", v)',
        'index': 'print("~\\n", arr[let v = 1]); print("~\\n", v)',
        'index-assignment-value': 'arr[0] <- let v = 8; print("~ ~\\n", arr, v)',
        'if-condition': 'if (let v = true) then print("T\\n") else print("F\\n"); print("~\\n", v)',
        'if-branch': 'if true then let v = 9 else 0; print("~\\n", v)',
        'while-condition': 'let n = 0; while (let v = n < 2) do n <- n + 1; print("~ ~\\n", n, 7)',
        'print-argument': 'print("~ ", let v = 2); print("~\\n", v)',
        'field-initializer': 'let t = object begin let f = let v = 3 end; print("~ ~\\n", t, v)',
        'object-parent': 'let t = object extends (let v = 5) begin let f = 1 end; print("~ ~\\n", t + 1, v)',
        'assignment-value': 'let w = 0; w <- let v = 4; print("~ ~\\n", w, v)',
        'let-initializer': 'let w = let v = 4; print("~ ~\\n", w, v)',
    }
    pre = 'function add(a, b) -> a + b; let obj = object begin function m(k) -> k * 10 end; '
    out = []
    for sn, body in slots.items():
        frames = {'top': pre + 'let arr = array(2, 0); ' + body,
                  'block': pre + 'begin let arr = array(2, 0); ' + body + ' end',
                  'fun': pre + 'function f() -> begin let arr = array(2, 0); ' + body + ' end; f()',
                  'meth': pre + 'let h = object begin function g() -> begin let arr = array(2, 0); ' + body + ' end end; h.g()'}
        for fn, t in frames.items():
            out.append({'name': 'letslot:%s/%s' % (sn, fn), 'text': t, 'ast': None})
    return out


def polymorphic_site_programs(limit=None, rng=None):
    """ONE call instruction executed several times with receivers of different classes: an object that defines the method, one that inherits it, one that overrides
    the inherited one, one that inherits it through two levels - in every order (each execution looks the method up afresh, and `this` is the object that defines it)"""
    kinds = {'def': 'object begin let tag = 2; function who(k) -> begin print("def.who ~ ~;", this.tag, k); this.tag + k end end',
             'inh': 'object extends base begin let tag = 3 end',
             'ovr': 'object extends base begin let tag = 4; function who(k) -> begin print("ovr.who ~ ~;", this.tag, k); this.tag - k end end',
             'inh2': 'object extends (object extends base begin let tag = 5 end) begin let tag = 6 end',
             'ovr2': 'object extends (object extends base begin let tag = 7; function who(k) -> begin print("mid.who ~ ~;", this.tag, k); this.tag * k end end) begin let tag = 8 end'}
    out = []
    names = sorted(kinds)
    for n in (2, 3, 4):
        for seq in itertools.product(names, repeat=n):
            if len(set(seq)) < 2:
                continue
            fill = '; '.join('xs[%d] <- %s' % (i, kinds[k]) for i, k in enumerate(seq))
            text = ('let base = object begin let tag = 1; function who(k) -> begin print("base.who ~ ~;", this.tag, k); this.tag end end; function call(s, k) -> s.who(k); '
                    'let xs = array(%d, null); %s; let i = 0; while i < %d do begin print("-> ~\\n", call(xs[i], i)); i <- i + 1 end; '
                    'i <- 0; while i < %d do begin xs[%d - 1 - i].who(i); i <- i + 1 end; print("\\n")' % (n, fill, n, n, n))
            out.append({'name': 'polysite:' + '/'.join(seq), 'text': text, 'ast': None})
    if limit is not None and len(out) > limit:
        rng = rng or random.Random(seed())
        two = [p for p in out if p['name'].count('/') == 1]
        rest = [p for p in out if p not in two]
        out = two + rng.sample(rest, max(0, limit - len(two)))
    return out


def assign_slot_programs():
    """an assignment to a global written as a SUB-expression in every operand slot (the value of a field write, of an element write, an index, an argument, an operand,
    a condition, a print argument, a field initializer, an array initializer, a let initializer, a returned value), the global read afterwards directly and through a function"""
    slots = {
        'field-write-value': 'stats.hits <- (count <- count + 1)',
        'element-write-value': 'log[0] <- (count <- count + 1)',
        'element-write-index': 'log[count <- count + 1] <- 7',
        'index': 'log[count <- count + 1]',
        'field-read-receiver': '(count <- count + 1) + stats.hits',
        'call-argument': 'id(count <- count + 1)',
        'method-argument': 'stats.m(count <- count + 1)',
        'operator-right': '10 + (count <- count + 1)',
        'condition': 'if (count <- count + 1) > 0 then 1 else 2',
        'loop-condition': 'while (count <- count + 1) < 0 do 0',
        'print-argument': 'print("~;", count <- count + 1)',
        'field-initializer': 'object begin let f = (count <- count + 1) end',
        'array-initializer': 'array(1, begin count <- count + 1 end)',
        'array-size': 'array(count <- count + 1, 0)',
        'let-initializer': 'let tmp = (count <- count + 1)',
        'nested-assignment': 'other <- (count <- count + 1)',
        'statement': 'count <- count + 1',
    }
    pre = 'let count = 0; let other = 0; let stats = object begin let hits = 0; function m(k) -> k end; let log = array(3, 0); function id(v) -> v; function get() -> count; '
    out = []
    for sn, e in slots.items():
        frames = {'top': pre + '%s; %s; print("~ ~\\n", count, get())' % (e, e.replace('let tmp', 'let tmp2')),
                  'fun': pre + 'function hit() -> begin %s; count end; hit(); hit(); print("~ ~ ~\\n", hit(), count, get())' % e,
                  'meth': pre + 'let h = object begin function hit() -> begin %s; count end end; h.hit(); print("~ ~ ~\\n", h.hit(), count, get())' % e,
                  'loop': pre + 'let i = 0; while i < 3 do begin %s; i <- i + 1 end; print("~ ~\\n", count, get())' % e.replace('let tmp =', 'other <-')}
        for fn, t in frames.items():
            out.append({'name': 'assignslot:%s/%s' % (sn, fn), 'text': t, 'ast': None})
    return out


def sandwich_programs():
    """a definition with its own control flow between two pieces of control flow of the enclosing body, in every frame kind (labels, temporaries and slots are
    numbered per compilation unit: what is counted before, inside and after a nested definition must not collide)"""
    ctl = {'if': 'if x > 0 then print("pos;") else print("neg;")', 'ifv': 'let s%d = if x > 0 then 1 else 2', 'while': 'let i%d = 0; while i%d < 2 do begin print("w;"); i%d <- i%d + 1 end',
           'arr': 'let a%d = array(2, begin print("e;"); x end)'}
    defs = {'plain': 'let o = object begin function m(k) -> k + 1 end', 'if': 'let o = object begin function m(k) -> if k > 0 then k else 0 - k end',
            'loop': 'let o = object begin function m(k) -> begin let j = 0; while j < k do j <- j + 1; j end end',
            'two': 'let o = object begin function m(k) -> if k > 0 then k else 0 - k; function n(k) -> begin if k > 1 then print("big;"); if k > 2 then print("bigger;"); k end end',
            'fun': 'function inner(k) -> if k > 0 then k else 0 - k'}
    def inst(t, n):
        return t.replace('%d', str(n))
    out = []
    for an, a in ctl.items():
        for dn, d in defs.items():
            for cn, c in ctl.items():
                body = '%s; %s; %s; print("~ ~\\n", %s, x)' % (inst(a, 1), d, inst(c, 2), 'inner(0 - 3)' if dn == 'fun' else 'o.m(0 - 3)')
                frames = {'top': 'let x = 3; %s' % body, 'block': 'begin let x = 3; %s end' % body,
                          'fun': 'function f(x) -> begin %s end; f(3); f(0 - 4)' % body, 'meth': 'let h = object begin function g(x) -> begin %s end end; h.g(3); h.g(0 - 4)' % body}
                for fn, t in frames.items():
                    if dn == 'fun' and fn != 'top':
                        continue          # function definitions are top-level forms
                    out.append({'name': 'sandwich:%s/%s/%s/%s' % (an, dn, cn, fn), 'text': t, 'ast': None})
    return out


# ordinary programs of some size: state that builds up over many operations (allocations, calls, iterations), several features per expression, aliases through several hops
WORKLOADS = [
 ('workload:linked-list', '''
function cons(h, t) -> object begin let head = h; let tail = t; function sum() -> if null == this.tail then this.head else this.head + this.tail.sum(); function nth(n) -> if n == 0 then this.head else this.tail.nth(n - 1); function len() -> if null == this.tail then 1 else 1 + this.tail.len() end;
let l = null; let i = 0;
while i < 20 do begin l <- cons(i * i, l); i <- i + 1 end;
let s = 0; let p = l;
while null != p do begin s <- s + p.head; p <- p.tail end;
print("~ ~ ~ ~ ~\\n", l.sum(), s, l.len(), l.nth(0), l.nth(19))
'''),
 ('workload:counters-in-an-array', '''
function counter(start) -> object begin let n = start; let calls = 0; function inc(k) -> begin this.calls <- this.calls + 1; this.n <- this.n + k; this.n end end;
let cs = array(12, null); let i = 0;
while i < 12 do begin cs[i] <- counter(i * 10); i <- i + 1 end;
i <- 0;
while i < 12 do begin let j = 0; while j < i do begin cs[i].inc(j); j <- j + 1 end; i <- i + 1 end;
i <- 0; let total = 0;
while i < 12 do begin print("~:~/~ ", i, cs[i].n, cs[i].calls); total <- total + cs[i].n; i <- i + 1 end;
print("\\ntotal ~\\n", total)
'''),
 ('workload:sieve', '''
let n = 40; let sieve = array(n, true); sieve[0] <- false; sieve[1] <- false;
let i = 2;
while i * i < n do begin if sieve[i] then begin let j = i * i; while j < n do begin sieve[j] <- false; j <- j + i end end; i <- i + 1 end;
i <- 0; let count = 0;
while i < n do begin if sieve[i] then begin print("~ ", i); count <- count + 1 end; i <- i + 1 end;
print("\\n~ primes\\n", count)
'''),
 ('workload:matrix', '''
let n = 5; let k = 0 - 1; let m = array(n, array(n, k <- k + 1));
let t = array(n, null); let i = 0;
while i < n do begin t[i] <- array(n, 0); i <- i + 1 end;
i <- 0;
while i < n do begin let j = 0; while j < n do begin t[j][i] <- m[i][j] * 2; j <- j + 1 end; i <- i + 1 end;
let trace = 0; i <- 0;
while i < n do begin trace <- trace + t[i][i]; i <- i + 1 end;
print("~\\n~\\n~ ~\\n", m, t, trace, m[4][4])
'''),
 ('workload:stack', '''
function stack(cap) -> object begin let items = array(cap, null); let top = 0; function push(v) -> begin this.items[this.top] <- v; this.top <- this.top + 1; this end; function pop() -> begin this.top <- this.top - 1; this.items[this.top] end; function size() -> this.top end;
let s = stack(40); let i = 0;
while i < 30 do begin s.push(i * 3); if i % 4 == 3 then print("~ ", s.pop() + s.pop()); i <- i + 1 end;
print("\\nsize ~ top ~\\n", s.size(), s.pop());
let r = stack(5); r.push(1).push(2).push(3); print("~ ~ ~\\n", r.pop(), r.pop(), r.pop())
'''),
 ('workload:memo-fibonacci', '''
let memo = array(30, null); let calls = 0;
function fib(n) -> begin calls <- calls + 1; if n < 2 then n else if memo[n] != null then memo[n] else begin let v = fib(n - 1) + fib(n - 2); memo[n] <- v; v end end;
print("~ ~ ~\\n", fib(25), fib(20), calls);
function slow(n) -> if n < 2 then n else slow(n - 1) + slow(n - 2);
print("~\\n", slow(12))
'''),
 ('workload:accounts', '''
let base = object begin let fee = 1; let balance = 0; function deposit(a) -> begin this.balance <- this.balance + a; this.balance end; function kind() -> 0 end;
function account(start) -> object extends base begin let balance = start; let ops = 0; function withdraw(a) -> begin this.ops <- this.ops + 1; if a > this.balance then 0 - 1 else begin this.balance <- this.balance - a; this.balance end end; function kind() -> 1 end;
function premium(start) -> object extends account(start) begin let bonus = 5; function kind() -> 2 end;
let a = account(100); let b = premium(50); let accounts = array(3, null); accounts[0] <- a; accounts[1] <- b; accounts[2] <- base;
let i = 0;
while i < 15 do begin let acc = accounts[i % 2]; print("~ ", acc.withdraw(i * 3)); i <- i + 1 end;
print("\\n~ ~ ~ ~ ~\\n", a.balance, a.ops, b.kind(), accounts[2].kind(), a.deposit(7));
print("~ ~\\n", a.balance, base.balance)
'''),
 ('workload:collatz', '''
function steps(n) -> begin let c = 0; while n != 1 do begin if n % 2 == 0 then n <- n / 2 else n <- 3 * n + 1; c <- c + 1 end; c end;
let i = 1; let best = 0; let arg = 0;
while i < 16 do begin let s = steps(i); print("~ ", s); if s > best then begin best <- s; arg <- i end; i <- i + 1 end;
print("\\nlongest ~ at ~\\n", best, arg)
'''),
 ('workload:table', '''
let i = 1;
while i < 9 do begin let j = 1; while j < 9 do begin if j >= i then print("~ ", i * j) else print(". "); j <- j + 1 end; print("\\n"); i <- i + 1 end
'''),
 ('workload:gcd-lcm', '''
function gcd(a, b) -> begin while b != 0 do begin let t = b; b <- a % b; a <- t end; a end;
function lcm(a, b) -> a / gcd(a, b) * b;
let pairs = array(6, null); pairs[0] <- array(2, 12); pairs[1] <- array(2, 0); pairs[1][0] <- 35; pairs[1][1] <- 14; pairs[2] <- array(2, 17); pairs[2][1] <- 5; pairs[3] <- array(2, 100); pairs[3][1] <- 75; pairs[4] <- array(2, 81); pairs[4][1] <- 27; pairs[5] <- array(2, 1);
let i = 0;
while i < 6 do begin let p = pairs[i]; print("gcd(~,~)=~ lcm=~\\n", p[0], p[1], gcd(p[0], p[1]), lcm(p[0], p[1])); i <- i + 1 end
'''),
 ('workload:150-shapes-over-three-prototypes', '''
let tri = object begin function sides() -> 3; function name() -> 30 end; let quad = object begin function sides() -> 4; function name() -> 40 end; let pent = object begin function sides() -> 5; function name() -> 50 end;
let protos = array(3, null); protos[0] <- tri; protos[1] <- quad; protos[2] <- pent;
let shapes = array(150, null); let i = 0;
while i < 150 do begin shapes[i] <- object extends protos[i % 3] begin let id = i end; i <- i + 1 end;
let total = 0; let names = 0; i <- 0;
while i < 150 do begin total <- total + shapes[i].sides(); i <- i + 1 end;
i <- 149;
while i >= 0 do begin names <- names + shapes[i].name(); i <- i - 7 end;
print("~ ~ ~ ~\\n", total, names, shapes[133].sides(), shapes[5].sides())
'''),
 ('workload:300-allocations-then-dispatch', '''
let keep = array(3, null); let i = 0; let protos = array(3, null);
protos[0] <- object begin function who() -> 1 end; protos[1] <- object begin function who() -> 2 end; protos[2] <- object begin function who() -> 3 end;
while i < 265 do begin let o = object extends protos[i % 3] begin end; if i % 128 == 5 then keep[i / 128] <- o; i <- i + 1 end;
print("~ ~ ~\\n", keep[0].who(), keep[1].who(), keep[2].who())
'''),
 ('workload:queue-of-closures-as-objects', '''
function task(id, cost) -> object begin let id = id; let left = cost; function step() -> begin this.left <- this.left - 1; this.left == 0 end end;
let q = array(5, null); let i = 0;
while i < 5 do begin q[i] <- task(i, 5 - i); i <- i + 1 end;
let done = 0; let round = 0;
while done < 5 do begin round <- round + 1; i <- 0; while i < 5 do begin let t = q[i]; if null != t then if t.step() then begin print("task ~ done in round ~\\n", t.id, round); q[i] <- null; done <- done + 1 end; i <- i + 1 end end;
print("rounds ~\\n", round)
'''),
]


def workload_programs():
    return [{'name': n, 'text': ' '.join(x.split('\n')).strip(), 'ast': None} for n, x in WORKLOADS]


def corpus():
    return [{'name': 'corpus:' + n, 'text': t, 'ast': None} for n, t in corpus_sources()] + [{'name': n, 'text': t, 'ast': None} for n, t in EDGE + _limit_programs()] + workload_programs()


def random_programs(n, base_seed=None, size=30, fault_rate=0.03, tag='gen'):
    base_seed = seed() * 1000003 if base_seed is None else base_seed
    out = []
    for i in range(n):
        s = base_seed + i
        p = gen_program(s, size=size, fault_rate=fault_rate)
        rng = random.Random(s ^ 0x5bd1e995)
        text = unparse(p, full=(rng.random() < 0.15), rng=rng, decorate=(0.2 if rng.random() < 0.3 else 0.0))
        out.append({'name': '%s:%d' % (tag, s), 'text': text, 'ast': strip_marks(p)})
    return out


# ---------------------------------------------------------------- construct x context family (C02, C01)
def constructs():
    """one instance of every value-producing construct (uses globals x, a, o and function f defined by the context)"""
    return {
        'int': I(5), 'bool': B(True), 'null': N(), 'var': V('x'),
        'let': Let('q', I(1)), 'assign': Asg('x', I(2)),
        'block1': Blk([I(1)]), 'block2': Blk([V('x'), I(2)]), 'blocklet': Blk([Let('q', I(3)), V('q')]),
        'if': If(B(True), I(1), I(2)), 'ifnoelse': If(B(False), I(1)), 'ifvar': If(V('t'), V('x'), V('x')),
        'while': Wh(B(False), I(1)), 'whilevar': Wh(B(False), V('x')),
        'call': Call('f', [I(1), I(2)]), 'callvar': Call('f', [V('x'), V('x')]),
        'mcall': MC(V('o'), 'm', [I(1)]), 'op': Op('+', V('x'), I(1)), 'cmp': Op('<', I(1), V('x')),
        'print': Pr('p~\\n', [V('x')]), 'print0': Pr('q\\n'),
        'getfield': GF(V('o'), 'fa'), 'setfield': SF(V('o'), 'fa', I(3)),
        'index': Ix(V('a'), I(0)), 'setindex': SIx(V('a'), I(1), I(4)),
        'arraysimple': Arr(I(2), I(0)), 'arrayvar': Arr(I(2), V('x')), 'arrayfield': Arr(I(1), GF(V('o'), 'fa')),
        'arraycompound': Arr(I(2), Op('+', V('x'), I(1))), 'arraycompound0': Arr(I(0), Call('f', [I(1), I(1)])),
        'object': Obj(N(), [Let('u', I(1)), Fun('g', [], V('this'))]), 'objectext': Obj(V('a'), [Let('u', V('x'))]),
        'objectempty': Obj(N(), []),
        'getfieldcall': GF(Call('mk', []), 'fa'), 'indexcall': Ix(Call('mka', []), I(0)), 'getfieldnested': GF(GF(Obj(N(), [Let('in', Call('mk', []))]), 'in'), 'fa'),
        'arrayofarrays': Arr(I(2), Arr(I(2), I(0))), 'arrayofobjects': Arr(I(2), Obj(N(), [Let('u', V('x'))])),
        # programs the compiler must refuse or that fail when run: still inside C02's quantifier if they compile
        'objectdupfield': Obj(N(), [Let('u', I(1)), Let('u', I(2))]), 'objectdupfield3': Obj(V('a'), [Let('u', I(1)), Let('w', V('x')), Let('u', I(2))]),
        'objectdupmethod': Obj(N(), [Fun('g', [], I(1)), Fun('g', ['p'], V('p'))]),
        'blockletdup': Blk([Let('q', I(1)), Let('q', I(2)), V('q')]), 'blockletdup3': Blk([Let('q', I(1)), Let('r', I(2)), Let('q', I(3)), Op('+', V('q'), V('r'))]),
    }


MK = [Fun('mk', [], Blk([Pr('mk;'), Obj(N(), [Let('fa', I(5))])])), Fun('mka', [], Blk([Pr('mka;'), Arr(I(2), I(6))]))]
PRELUDE = MK + [Let('x', I(7)), Let('t', B(True)), Let('a', Arr(I(3), I(0))),
           Fun('f', ['p', 'q'], Op('+', V('p'), V('q'))),
           Let('o', Obj(N(), [Let('fa', I(1)), Fun('m', ['p'], Op('+', V('p'), GF(V('this'), 'fa')))]))]
SHOW = Pr('~ ~ ~ ~\\n', [V('x'), V('a'), GF(V('o'), 'fa'), V('t')])


def contexts():
    """each context places a construct C in one syntactic position; returns list of (name, lambda C: [stmts])"""
    show = lambda c: Pr('= ~\\n', [c])
    ctx = {
        'top_discard': lambda c: [c, SHOW],
        'top_last': lambda c: [SHOW, c],
        'kept_print': lambda c: [show(c), SHOW],
        'block_discard': lambda c: [Blk([c, I(1)]), SHOW],
        'block_last_discard': lambda c: [Blk([I(1), c]), SHOW],
        'block_last_kept': lambda c: [show(Blk([I(1), c])), SHOW],
        'arg_pending': lambda c: [Call('f', [I(1), Blk([c, I(2)])]), show(Call('f', [I(10), Blk([c, I(2)])])), SHOW],
        'arg_direct': lambda c: [Pr('~ ~\\n', [I(1), c]), SHOW],
        'cond': lambda c: [If(c, Pr('T\\n'), Pr('F\\n')), SHOW],
        'then_discard': lambda c: [If(V('t'), c, I(0)), SHOW],
        'else_discard': lambda c: [If(B(False), I(0), c), SHOW],
        'then_kept': lambda c: [show(If(V('t'), c, I(0))), SHOW],
        'loop_body': lambda c: [Let('n', I(0)), Wh(Op('<', V('n'), I(2)), Blk([c, Asg('n', Op('+', V('n'), I(1)))])), SHOW],
        'loop_body_direct': lambda c: [Let('n', I(0)), Wh(Op('<', Asg('n', Op('+', V('n'), I(1))), I(3)), c), SHOW],
        'loop_cond': lambda c: [Let('n', I(0)), Wh(Blk([c, Op('<', V('n'), I(1))]), Asg('n', Op('+', V('n'), I(1)))), SHOW],
        'let_init': lambda c: [Let('r', c), Pr('r=~\\n', [V('r')]), SHOW],
        'receiver': lambda c: [show(Op('==', c, N())), SHOW],
        'field_init': lambda c: [Let('r', Obj(N(), [Let('w', c)])), Pr('~\\n', [V('r')]), SHOW],
        'parent': lambda c: [Pr('~\\n', [Obj(Blk([c, N()]), [Let('w', I(1))])]), SHOW],
        'array_init': lambda c: [Pr('~\\n', [Arr(I(2), Blk([c, I(1)]))]), SHOW],
        'array_size': lambda c: [Pr('~\\n', [Arr(Blk([c, I(2)]), I(0))]), SHOW],
        'index_pending': lambda c: [show(Ix(V('a'), Blk([c, I(0)]))), SHOW],
        'setindex_value': lambda c: [SIx(V('a'), I(2), Blk([c, I(9)])), SHOW],
        'op_rhs': lambda c: [show(Op('+', I(100), Blk([c, I(1)]))), SHOW],
    }
    return ctx


def in_function(stmts_fn):
    """the same position inside a function body (locals instead of globals)"""
    def wrap(c):
        body = [Let('x', I(7)), Let('t', B(True)), Let('a', Arr(I(3), I(0))),
                Let('o', Obj(N(), [Let('fa', I(1)), Fun('m', ['p'], Op('+', V('p'), GF(V('this'), 'fa')))]))] + stmts_fn(c) + [I(0)]
        return MK + [Fun('f', ['p', 'q'], Op('+', V('p'), V('q'))), Fun('h', [], Blk(body)), Pr('~\\n', [Call('h', [])])]
    return wrap


def in_method(stmts_fn):
    def wrap(c):
        body = [Let('x', I(7)), Let('t', B(True)), Let('a', Arr(I(3), I(0))),
                Let('o', Obj(N(), [Let('fa', I(1)), Fun('m', ['p'], Op('+', V('p'), GF(V('this'), 'fa')))]))] + stmts_fn(c) + [I(0)]
        return MK + [Fun('f', ['p', 'q'], Op('+', V('p'), V('q'))), Let('hh', Obj(N(), [Fun('h', [], Blk(body))])), Pr('~\\n', [MC(V('hh'), 'h', [])])]
    return wrap


def in_block(stmts_fn):
    def wrap(c):
        return MK + [Fun('f', ['p', 'q'], Op('+', V('p'), V('q'))),
                Blk([Let('x', I(7)), Let('t', B(True)), Let('a', Arr(I(3), I(0))),
                     Let('o', Obj(N(), [Let('fa', I(1)), Fun('m', ['p'], Op('+', V('p'), GF(V('this'), 'fa')))]))] + stmts_fn(c))]
    return wrap


def construct_family(pairs=False, limit=None, rng=None):
    """every construct in every context, at top level / in a top-level block / in a function / in a method;
    with pairs=True additionally every ordered pair of constructs in the 'discard then pending argument' shape."""
    import copy
    out = []
    cs = constructs()
    ctxs = contexts()
    for cn, c in cs.items():
        for xn, x in ctxs.items():
            for wn, w in (('top', lambda f: (lambda cc: PRELUDE + f(cc))), ('block', in_block), ('fun', in_function), ('meth', in_method)):
                stmts = w(x)(copy.deepcopy(c))
                ast = Top(copy.deepcopy(stmts))
                out.append({'name': 'cx:%s/%s/%s' % (cn, xn, wn), 'text': unparse(ast), 'ast': strip_marks(ast)})
    if pairs:
        for (n1, c1), (n2, c2) in itertools.product(cs.items(), cs.items()):
            stmts = PRELUDE + [Pr('~ ~ ~\\n', [I(1), Blk([copy.deepcopy(c1), copy.deepcopy(c2), I(2)]), Blk([copy.deepcopy(c2), I(3)])]), SHOW]
            ast = Top(stmts)
            out.append({'name': 'cxpair:%s,%s' % (n1, n2), 'text': unparse(ast), 'ast': strip_marks(ast)})
    if limit is not None and len(out) > limit:
        # every construct in the four most telling positions (discarded, last statement of the frame, kept, pending argument) under every frame kind is always kept; the rest is sampled
        rng = rng or random.Random(seed())
        core = [p for p in out if p['name'].startswith('cx:') and p['name'].split('/')[1] in ('top_discard', 'top_last', 'kept_print', 'arg_pending')]
        rest = [p for p in out if p not in core]
        out = core + rng.sample(rest, max(0, min(len(rest), limit - len(core))))
    return out


def big_programs(huge_pool=False):
    """programs whose images are larger than the 8 KiB reader/writer buffers (strings lying across buffer boundaries);
    huge_pool: also one whose constant pool needs indices above 32767 (16-bit, unsigned)"""
    P = [('big:300-prints', '; '.join('print("line %d of a program whose image is larger than the reader buffers: ~\\n", %d)' % (i, i) for i in range(300))),
         ('big:long-strings', '; '.join('print("%s\\n")' % (chr(97 + i % 26) * (3000 + 37 * i)) for i in range(8))),
         ('big:many-functions', '; '.join('function f%d(a, b) -> begin let t = a * %d + b; if t > 3 then print("f%d ~\\n", t) else t end' % (i, i, i) for i in range(150)) + '; ' + '; '.join('f%d(%d, 1)' % (i, i) for i in range(150))),
         ('big:utf8-4k-boundaries', '; '.join('print("%s%s\\n")' % ('a' * k, ch * n) for k, ch, n in [(1, 'é', 4500), (0, '世', 3000), (1, '世', 3000), (2, '世', 3000), (1, '😀', 2300), (3, '😀', 2300)])),
         ('big:utf8-strings', '; '.join('print("%s ~\\n", %d)' % ('é世😀' * (40 + i), i) for i in range(60)))]
    R = [{'name': n, 'text': t, 'ast': None} for n, t in P]
    if huge_pool:
        R.append({'name': 'big:33000-constants', 'text': '; '.join(str(i) for i in range(33000)) + '; print("~ ~\\n", 32999, 32768)', 'ast': None,
                  'expect': b'32999 32768\n'})
        R.append({'name': 'big:string-of-70000-bytes', 'text': 'print("%s|~\\n", 7)' % ('s' * 70000), 'ast': None, 'expect': b's' * 70000 + b'|7\n'})
    return R
