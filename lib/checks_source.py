"""C01, C10, C12, C13, C14: whole programs against the README semantics (FMLSource)."""
import os, json, random, subprocess, hashlib
from common import *
import pool, srctrace
from checks_bytecode import tier_sizes


def cli_run(exe, text, wd, name='p.fml', args=('run',), timeout=20, stdin_text=None):
    """run the real CLI as a subprocess; returns (exit code or -signal, stdout bytes, stderr bytes)"""
    path = os.path.join(wd, name)
    with open(path, 'w', encoding='utf-8') as f:
        f.write(text)
    try:
        p = subprocess.run([exe] + list(args) + [path], stdout=subprocess.PIPE, stderr=subprocess.PIPE, timeout=timeout, cwd=wd)
    except subprocess.TimeoutExpired:
        return None, b'', b''
    return p.returncode, p.stdout, p.stderr


def cli_status(rc):
    if rc is None:
        return None
    if rc == 0:
        return 'ok'
    if rc < 0 or rc >= 128:
        return 'crash'
    return 'fail'


def judge_programs(chk, exe, progs, wd, tag, budget=20000, cli_sample=0, rng=None, want_extra=()):
    """run every program through the real pipeline in-process (and a sample through the real CLI), judge with TraceSource.
    Returns (outs, verdicts)."""
    recs = [{'id': i, 'text': p['text'], 'want': ['ast', 'run'] + list(want_extra), 'budget': budget} for i, p in enumerate(progs)]
    outs = run_harness(exe, 'run', recs, wd, tag=tag)
    srecs = []
    observed = {}
    unjudged = 0
    for i, o in enumerate(outs):
        st, out = srctrace.status_of(o)
        ast = progs[i].get('ast') or o.get('ast')
        if ast is None and st == 'reject' and progs[i].get('ast') is None:
            unjudged += 1          # corpus text the parser rejects: no AST to give to the semantics
            continue
        if st is None or ast is None:
            unjudged += 1
            continue
        observed[i] = (st, out)
        srecs.append(srctrace.source_record(i, ast, st, out))
    # a sample through the real command line (process exit status and stdout are what the property talks about)
    if cli_sample:
        rng = rng or random.Random(seed())
        ids = [r['id'] for r in srecs]
        for i in rng.sample(ids, min(cli_sample, len(ids))):
            rc, so, se = cli_run(exe, progs[i]['text'], wd)
            st = cli_status(rc)
            if st is None:
                continue
            # in the CLI a rejection and a run-time failure both exit non-zero; distinguish by what the in-process stages said
            if st == 'fail' and observed[i][0] == 'reject':
                st = 'reject'
            j = len(progs) + i
            ast = progs[i].get('ast') or outs[i].get('ast')
            observed[j] = (st, list(so))
            srecs.append(srctrace.source_record(j, ast, st, list(so)))
    verdicts, rs = srctrace.validate(srecs, wd, tag=tag, budget=budget)
    for r in rs:
        chk.add_tlc(r)
    # `this` under delegation is under-specified: a program that disagrees in holder mode and met a delegated method is retried in receiver mode
    retry = [r for r in srecs if verdicts[r['id']]['verdict'] == 'ok' and verdicts[r['id']]['frag'] and not verdicts[r['id']]['agree'] and verdicts[r['id']]['amb']]
    if retry:
        for r in retry:
            r['mode'] = 'receiver'
        v2, rs2 = srctrace.validate(retry, wd, tag=tag + 'r', budget=budget)
        for r in rs2:
            chk.add_tlc(r)
        for k, v in v2.items():
            if v['agree']:
                verdicts[k] = v
    judged = 0
    for r in srecs:
        v = verdicts[r['id']]
        i = r['id'] if r['id'] < len(progs) else r['id'] - len(progs)
        via = 'in-process' if r['id'] < len(progs) else 'fml run (subprocess)'
        if v['verdict'] == 'spec-invariant':
            raise ToolError('FMLSource step property violated on %s (specification defect)' % progs[i]['name'])
        if v['verdict'] == 'budget' or not v['frag']:
            unjudged += 1
            continue
        judged += 1
        chk.count(hashlib.sha1(progs[i]['text'].encode()).hexdigest())
        if not v['agree']:
            st, out = observed[r['id']]
            chk.violation('%s [%s]: semantics says %s with %d bytes of output, implementation %s with %d bytes' % (
                progs[i]['name'], via, v['st'], v['outlen'], st, len(out)),
                {'program': progs[i]['name'], 'source': progs[i]['text'], 'via': via,
                 'expected': {'status': v['st'], 'out': bytes(v['specout']).decode('utf-8', 'replace')},
                 'observed': {'status': st, 'out': bytes(out).decode('utf-8', 'replace')},
                 'signature': {'kind': 'outcome', 'expected': v['st'], 'observed': st}})
    chk.traces += judged
    chk.notes['not_judged_outside_fragment_or_budget'] = chk.notes.get('not_judged_outside_fragment_or_budget', 0) + unjudged
    return outs, verdicts


def c01(tier):
    chk = Check('C01', tier)
    chk.rule = ('programs = in-repo corpus + seeded random programs in the defined fragment (AST generated, unparsed with random parenthesization/layout, '
                'so the real parser is in the loop) + every construct x context x frame kind (+ construct pairs, thorough); each is run through parse, compile, '
                'serialize, load, interpret in-process and a sample through the real `fml run`; TLC runs the README semantics FMLSource on the AST and compares '
                'status and output. distinct_nontrivial = distinct source texts judged inside the fragment.')
    exe = build('debug')
    wd = scratch('c01')
    progs = pool.corpus() + pool.random_programs(tier_sizes(tier, 300, 8000), size=tier_sizes(tier, 30, 45)) + \
        pool.construct_family(pairs=(tier == 'thorough'), limit=tier_sizes(tier, 400, None))
    outs, vs = judge_programs(chk, exe, progs, wd, 'c01', cli_sample=tier_sizes(tier, 60, 600))
    k = 0
    for i, p in enumerate(progs):
        if i in vs and vs[i]['agree'] and vs[i]['frag'] and vs[i]['outlen'] > 0 and p['name'].startswith('gen') and k < 3:
            st, out = srctrace.status_of(outs[i])
            chk.sample({'program': p['name'], 'source': p['text'][:300], 'status': st, 'out': bytes(out).decode('utf-8', 'replace')[:120], 'spec_steps': vs[i]['steps']})
            k += 1
    chk.assumptions = ['TLC', 'FMLSource is the README (self-tested on the in-repo corpus with expected outputs)', 'the AST normalization norm.rs / the Python unparser']
    rm(wd)
    return chk.finish()
