"""C01, C10, C12, C13, C14: whole programs against the README semantics (FMLSource)."""
import os, json, random, subprocess, hashlib
from common import *
import pool, srctrace
from checks_bytecode import tier_sizes


def cli_run(exe, text, wd, name='p.fml', args=('run',), timeout=20, stdin_text=None):
    """run the real CLI as a subprocess; returns (exit code or -signal, stdout bytes, stderr bytes)"""
    path = os.path.join(wd, name)
    with open(path, 'w', encoding='utf-8') as f:
        f.write(text)
    try:
        p = subprocess.run([exe] + list(args) + [path], stdout=subprocess.PIPE, stderr=subprocess.PIPE, timeout=timeout, cwd=wd)
    except subprocess.TimeoutExpired:
        return None, b'', b''
    return p.returncode, p.stdout, p.stderr


def cli_status(rc):
    if rc is None:
        return None
    if rc == 0:
        return 'ok'
    if rc < 0 or rc >= 128:
        return 'crash'
    return 'fail'


def judge_programs(chk, exe, progs, wd, tag, budget=20000, cli_sample=0, rng=None, want_extra=()):
    """run every program through the real pipeline in-process (and a sample through the real CLI), judge with TraceSource.
    Returns (outs, verdicts)."""
    recs = [{'id': i, 'text': p['text'], 'want': ['ast', 'run'] + list(want_extra), 'budget': budget} for i, p in enumerate(progs)]
    outs = run_harness(exe, 'run', recs, wd, tag=tag)
    srecs = []
    observed = {}
    unjudged = 0
    for i, o in enumerate(outs):
        st, out = srctrace.status_of(o)
        ast = progs[i].get('ast') or o.get('ast')
        if ast is None and st == 'reject' and progs[i].get('ast') is None:
            unjudged += 1          # corpus text the parser rejects: no AST to give to the semantics
            continue
        if st is None or ast is None:
            unjudged += 1
            continue
        observed[i] = (st, out)
        srecs.append(srctrace.source_record(i, ast, st, out))
    # a sample through the real command line (process exit status and stdout are what the property talks about)
    if cli_sample:
        rng = rng or random.Random(seed())
        ids = [r['id'] for r in srecs]
        for i in rng.sample(ids, min(cli_sample, len(ids))):
            rc, so, se = cli_run(exe, progs[i]['text'], wd)
            st = cli_status(rc)
            if st is None:
                continue
            # in the CLI a rejection and a run-time failure both exit non-zero; distinguish by what the in-process stages said
            if st == 'fail' and observed[i][0] == 'reject':
                st = 'reject'
            j = len(progs) + i
            ast = progs[i].get('ast') or outs[i].get('ast')
            observed[j] = (st, list(so))
            srecs.append(srctrace.source_record(j, ast, st, list(so)))
    verdicts, rs = srctrace.validate(srecs, wd, tag=tag, budget=budget)
    for r in rs:
        chk.add_tlc(r)
    # `this` under delegation is under-specified: a program that disagrees in holder mode and met a delegated method is retried in receiver mode
    retry = [r for r in srecs if verdicts[r['id']]['verdict'] == 'ok' and verdicts[r['id']]['frag'] and not verdicts[r['id']]['agree'] and verdicts[r['id']]['amb']]
    if retry:
        for r in retry:
            r['mode'] = 'receiver'
        v2, rs2 = srctrace.validate(retry, wd, tag=tag + 'r', budget=budget)
        for r in rs2:
            chk.add_tlc(r)
        for k, v in v2.items():
            if v['agree']:
                verdicts[k] = v
    judged = 0
    for r in srecs:
        v = verdicts[r['id']]
        i = r['id'] if r['id'] < len(progs) else r['id'] - len(progs)
        via = 'in-process' if r['id'] < len(progs) else 'fml run (subprocess)'
        if v['verdict'] == 'spec-invariant':
            raise ToolError('FMLSource step property violated on %s (specification defect)' % progs[i]['name'])
        if v['verdict'] == 'budget' or not v['frag']:
            unjudged += 1
            continue
        judged += 1
        chk.count(hashlib.sha1(progs[i]['text'].encode()).hexdigest())
        if not v['agree']:
            st, out = observed[r['id']]
            chk.violation('%s [%s]: semantics says %s with %d bytes of output, implementation %s with %d bytes' % (
                progs[i]['name'], via, v['st'], v['outlen'], st, len(out)),
                {'program': progs[i]['name'], 'source': progs[i]['text'], 'via': via,
                 'expected': {'status': v['st'], 'out': bytes(v['specout']).decode('utf-8', 'replace')},
                 'observed': {'status': st, 'out': bytes(out).decode('utf-8', 'replace')},
                 'signature': {'kind': 'outcome', 'expected': v['st'], 'observed': st}})
    chk.traces += judged
    chk.notes['not_judged_outside_fragment_or_budget'] = chk.notes.get('not_judged_outside_fragment_or_budget', 0) + unjudged
    return outs, verdicts


def c01(tier):
    chk = Check('C01', tier)
    chk.rule = ('programs = in-repo corpus + seeded random programs in the defined fragment (AST generated, unparsed with random parenthesization/layout, '
                'so the real parser is in the loop) + every construct x context x frame kind (+ construct pairs, thorough); each is run through parse, compile, '
                'serialize, load, interpret in-process and a sample through the real `fml run`; TLC runs the README semantics FMLSource on the AST and compares '
                'status and output. distinct_nontrivial = distinct source texts judged inside the fragment.')
    exe = build('debug')
    wd = scratch('c01')
    progs = pool.corpus() + pool.random_programs(tier_sizes(tier, 300, 8000), size=tier_sizes(tier, 30, 45)) + \
        pool.construct_family(pairs=(tier == 'thorough'), limit=tier_sizes(tier, 400, None))
    outs, vs = judge_programs(chk, exe, progs, wd, 'c01', cli_sample=tier_sizes(tier, 60, 600))
    k = 0
    for i, p in enumerate(progs):
        if i in vs and vs[i]['agree'] and vs[i]['frag'] and vs[i]['outlen'] > 0 and p['name'].startswith('gen') and k < 3:
            st, out = srctrace.status_of(outs[i])
            chk.sample({'program': p['name'], 'source': p['text'][:300], 'status': st, 'out': bytes(out).decode('utf-8', 'replace')[:120], 'spec_steps': vs[i]['steps']})
            k += 1
    chk.assumptions = ['TLC', 'FMLSource is the README (self-tested on the in-repo corpus with expected outputs)', 'the AST normalization norm.rs / the Python unparser']
    rm(wd)
    return chk.finish()


# ------------------------------------------------------------------------------------------------ C12
from gen import *
from unparse import unparse, strip_marks


def scope_ast(toks, context, prelude):
    """prefix-notation statement sequence (from MC_Scope) -> program AST in the given context"""
    k = [0]
    pos = [0]

    def lit():
        k[0] += 1
        return I(k[0])

    def stmt():
        t = toks[pos[0]]
        pos[0] += 1
        if t == 'letx': return Let('x', lit())
        if t == 'lety': return Let('y', lit())
        if t == 'setx': return Asg('x', lit())
        if t == 'sety': return Asg('y', lit())
        if t == 'readx': return Pr('x=~\\n', [V('x')])
        if t == 'ready': return Pr('y=~\\n', [V('y')])
        if t == 'callf': return Call('f', [])
        if t == 'callm': return MC(V('o'), 'm', [])
        if t == 'begin':
            es = []
            while toks[pos[0]] != 'end':
                es.append(stmt())
            pos[0] += 1
            return Blk(es)
        if t == 'ift':
            return If(B(True), stmt())
        if t == 'iff':
            a = stmt()
            b = stmt()
            return If(B(False), a, b)
        if t == 'wh':
            return Wh(Call('once', []), stmt())
        raise ValueError(t)
    body = []
    while pos[0] < len(toks):
        body.append(stmt())
    helpers = [Let('flag', I(0)),
               Fun('once', [], Blk([Asg('flag', Op('+', V('flag'), I(1))), Op('==', Op('%', V('flag'), I(2)), I(1))])),
               Fun('f', [], Blk([Pr('f:~\\n', [V('x')]), Asg('x', I(900)), V('y')])),
               Let('o', Obj(N(), [Fun('m', [], Blk([Pr('m:~\\n', [V('y')]), Asg('y', I(800)), V('x')]))]))]
    pre = ([Let('x', I(100)), Let('y', I(200))] if prelude else []) + helpers
    end = [Pr('end ~ ~\\n', [V('x'), V('y')])]
    if context == 'top':
        es = pre + body + end
    elif context == 'block':
        es = pre + [Blk(body)] + end
    elif context == 'fun':
        es = pre + [Fun('g', [], Blk(body)), Call('g', [])] + end
    else:
        es = pre + [Let('h', Obj(N(), [Fun('g', [], Blk(body))])), MC(V('h'), 'g', [])] + end
    return Top(es)


CONTEXTS = [(c, p) for c in ('top', 'block', 'fun', 'meth') for p in (True, False)]


def c12(tier):
    chk = Check('C12', tier)
    maxlen = tier_sizes(tier, 3, 5)
    chk.rule = ('TLC enumerates on the fly every statement sequence (MC_Scope: let/assign/read of x and y, call f, call o.m, begin/end to depth 2, if-true, if-false-else, '
                'while-once) up to %d statements; each is placed at top level, in a top-level block, in a function body and in a method body, with and without global x, y '
                '(all 8 placements up to length %d, one placement round-robin beyond), written literals numbered; TLC runs the README semantics FMLSource on the AST (scope '
                'stack, LeaveRestores and CallIsolated checked in every state) and the real pipeline must print the same values and stop at the same point. '
                'distinct_nontrivial = distinct programs judged inside the fragment.' % (maxlen, 4 if tier == 'thorough' else 3))
    exe = build('debug')
    wd = scratch('c12')
    r = tlc_or_die('MC_Scope', env={'MAXLEN': str(maxlen)}, workers=8, timeout=1800)
    chk.add_tlc(r)
    seqs = [g['toks'] for g in r.lines.get('REPLAY', [])]
    seqs.sort(key=lambda t: (len(t), t))
    chk.notes['statement_sequences_enumerated'] = len(seqs)
    progs = []
    full_len = 4 if tier == 'thorough' else 3
    for si, toks in enumerate(seqs):
        nst = len([t for t in toks if t != 'end'])
        places = CONTEXTS if nst <= full_len else [CONTEXTS[si % len(CONTEXTS)]]
        for (c, p) in places:
            ast = scope_ast(toks, c, p)
            progs.append({'name': 'scope:%s/%s/%s' % (' '.join(toks), c, 'globals' if p else 'noglobals'), 'text': unparse(ast), 'ast': strip_marks(ast)})
    chk.notes['programs'] = len(progs)
    chunk = 20000
    agg = {'done': 0, 'fail': 0, 'reject': 0}
    for b in range(0, len(progs), chunk):
        part = progs[b:b + chunk]
        outs, vs = judge_programs(chk, exe, part, wd, 'c12_%d' % b, budget=3000)
        for v in vs.values():
            if v['frag'] and v['st'] in agg:
                agg[v['st']] += 1
        if b == 0:
            for i in (len(part) // 2, len(part) - 1):
                if i in vs:
                    st, out = srctrace.status_of(outs[i])
                    chk.sample({'program': part[i]['name'], 'source': part[i]['text'], 'prescribed': vs[i]['st'], 'observed': st, 'out': bytes(out).decode('utf-8', 'replace')})
    chk.notes['prescribed_outcomes_inside_fragment'] = agg
    chk.exhaustive = True
    chk.notes['exhaustive_scope'] = 'all statement sequences of the MC_Scope grammar up to the stated length, in the stated placements'
    chk.assumptions = ['TLC', 'FMLSource scoping rules (DESIGN §3.7)', 'the token-to-AST conversion of the driver (structural only)']
    rm(wd)
    return chk.finish()


# ------------------------------------------------------------------------------------------------ C13
SIG = {'call0': [], 'call1': ['int'], 'call2': ['int'] * 2, 'call3': ['int'] * 3, 'mcall': ['obj', 'int', 'int'], 'op': ['int', 'int'], 'cmp': ['int', 'int'],
       'obj0': ['par'], 'obj1': ['par', 'int'], 'obj2': ['par', 'int', 'int'], 'obj3': ['par', 'int', 'int', 'int'],
       'arrs': ['size'], 'arrc0': ['size0', 'int'], 'arrc1': ['size1', 'int'], 'arrc2': ['size2', 'int'], 'arrc3': ['size3', 'int'],
       'index': ['arr', 'idx'], 'setindex': ['arr', 'idx', 'int'], 'getfield': ['obj'], 'setfield': ['obj', 'int'], 'if': ['bool', 'int', 'int'],
       'print0': [], 'print1': ['int'], 'print2': ['int'] * 2, 'print3': ['int'] * 3, 'while0': [], 'while1': [], 'while2': [], 'let': ['int'], 'assign': ['int']}
METHOD_M = lambda: Fun('m', ['a', 'b'], Blk([Pr('m;'), Op('-', V('a'), V('b'))]))


def evalorder_ast(shape):
    """prefix-notation shape (from MC_EvalOrder) -> program; markers numbered in textual order"""
    pos = [0]
    mark = [0]

    def leaf(kind, tok):
        mark[0] += 1
        k = mark[0]
        if kind == 'bool':
            v = B(tok == 'T')
        elif kind == 'arr':
            v = Arr(I(2), I(0))
        elif kind == 'obj':
            v = Obj(N(), [Let('f', I(1)), METHOD_M()])
        elif kind == 'par':
            v = N()
        elif kind.startswith('size'):
            v = I(int(kind[4:]) if len(kind) > 4 else 2)
        elif kind == 'idx':
            v = I(0)
        else:
            v = I(10 + k)
        return Blk([Pr('%d;' % k), v])

    def term(kind):
        tok = shape[pos[0]]
        pos[0] += 1
        if tok in ('L', 'T', 'F'):
            return leaf(kind, tok)
        args = [term(k) for k in SIG[tok]]
        return build(tok, args)

    def build(c, a):
        if c.startswith('call'):
            return Call('f' + c[4:], a)
        if c == 'mcall':
            return MC(a[0], 'm', a[1:])
        if c == 'op':
            return Op('-', a[0], a[1])
        if c == 'cmp':
            return Op('<=', a[0], a[1])
        if c.startswith('obj'):
            return Obj(a[0], [Let('f', I(1))] + [Let('g%d' % i, x) for i, x in enumerate(a[1:])] + [METHOD_M()])
        if c == 'arrs':
            return Arr(a[0], I(7))
        if c.startswith('arrc'):
            return Arr(a[0], a[1])
        if c == 'index':
            return Ix(a[0], a[1])
        if c == 'setindex':
            return SIx(a[0], a[1], a[2])
        if c == 'getfield':
            return GF(a[0], 'f')
        if c == 'setfield':
            return SF(a[0], 'f', a[1])
        if c == 'if':
            return If(a[0], a[1], a[2])
        if c.startswith('print'):
            return Pr(' '.join(['~'] * len(a)) + ';', a)
        if c.startswith('while'):
            kk = int(c[5:])
            return Blk([Asg('n', I(0)), Wh(Blk([Pr('c;'), Op('<=', Asg('n', Op('+', V('n'), I(1))), I(kk))]), Blk([Pr('b;'), V('n')]))])
        if c == 'let':
            return Let('z', a[0])
        if c == 'assign':
            return Asg('n', a[0])
        raise ValueError(c)
    e = term('any')
    prelude = [Let('n', I(0)),
               Fun('f0', [], Blk([Pr('f0;'), I(10)])), Fun('f1', ['a'], Blk([Pr('f1;'), V('a')])),
               Fun('f2', ['a', 'b'], Blk([Pr('f2;'), Op('-', V('a'), V('b'))])),
               Fun('f3', ['a', 'b', 'c'], Blk([Pr('f3;'), Op('-', Op('-', V('a'), V('b')), V('c'))]))]
    return Top(prelude + [Pr(' R=~\\n', [e])])


def c13(tier):
    chk = Check('C13', tier)
    chk.rule = ('TLC enumerates all typed expression shapes to depth 2 (MC_EvalOrder: calls with 0-3 arguments, method call, operators, object with parent and 0-3 fields, '
                'array(size, constant), array(size 0-3, compound), index, indexed and field assignment, if, while with 0-2 iterations, print 0-3, let, assign); every operand '
                'position holds a numbered marker begin print("k;"); v end or a nested shape; the printed marker sequence (order and multiplicity) prescribed by FMLSource, '
                'run by TLC, must equal what the real pipeline prints. Quick: all shapes with at most one nested operand + a 1/24 stride of the rest; thorough: all. distinct_nontrivial = distinct shapes judged.')
    exe = build('debug')
    wd = scratch('c13')
    r = tlc_or_die('MC_EvalOrder', workers=8, timeout=1800)
    chk.add_tlc(r)
    shapes = [g['shape'] for g in r.lines.get('REPLAY', [])]
    shapes.sort(key=lambda s: (len(s), s))
    chk.notes['shapes_enumerated'] = len(shapes)
    if tier != 'thorough':
        nested = lambda s: len([t for t in s[1:] if t not in ('L', 'T', 'F')])
        few = [s for s in shapes if nested(s) <= 1]          # all shapes with at most one nested operand
        rest = [s for s in shapes if nested(s) > 1]
        shapes = few + rest[(seed() % 24)::24]
    progs = []
    for s in shapes:
        ast = evalorder_ast(s)
        progs.append({'name': 'order:' + ' '.join(s), 'text': unparse(ast), 'ast': strip_marks(ast)})
    outs, vs = judge_programs(chk, exe, progs, wd, 'c13', budget=3000)
    for i in (0, len(progs) // 2, len(progs) - 1):
        st, out = srctrace.status_of(outs[i])
        chk.sample({'program': progs[i]['name'], 'source': progs[i]['text'][progs[i]['text'].find('print ( " R='):][:400], 'marker_sequence': bytes(out).decode('utf-8', 'replace')})
    chk.exhaustive = (tier == 'thorough')
    chk.assumptions = ['TLC', 'FMLSource evaluation order = the README rules (left to right; compound array initializer per element; constant initializers once)']
    rm(wd)
    return chk.finish()
