"""C01, C10, C12, C13, C14: whole programs against the README semantics (FMLSource)."""
import os, json, random, subprocess, hashlib, time
from common import *
import pool, srctrace
from checks_bytecode import tier_sizes


def cli_run(exe, text, wd, name='p.fml', args=('run',), timeout=20, stdin_text=None):
    """run the real CLI as a subprocess; returns (exit code or -signal, stdout bytes, stderr bytes)"""
    path = os.path.join(wd, name)
    with open(path, 'w', encoding='utf-8') as f:
        f.write(text)
    try:
        p = subprocess.run([exe] + list(args) + [path], stdout=subprocess.PIPE, stderr=subprocess.PIPE, timeout=timeout, cwd=wd)
    except subprocess.TimeoutExpired:
        return None, b'', b''
    return p.returncode, p.stdout, p.stderr


def cli_status(rc):
    if rc is None:
        return None
    if rc == 0:
        return 'ok'
    if rc < 0 or rc >= 128:
        return 'crash'
    return 'fail'


def judge_programs(chk, exe, progs, wd, tag, budget=20000, cli_sample=0, rng=None, want_extra=(), cli_force=None):
    """run every program through the real pipeline in-process (and a sample through the real CLI), judge with TraceSource.
    Returns (outs, verdicts)."""
    # the real VM may execute ten times as many instructions as the reference semantics is given steps: a program the semantics finishes within its budget
    # and the implementation does not finish within ten times that many instructions is a disagreement ("diverged"), not something to skip
    recs = [{'id': i, 'text': p['text'], 'want': ['ast', 'run'] + list(want_extra), 'budget': budget * 10} for i, p in enumerate(progs)]
    outs = run_harness(exe, 'run', recs, wd, tag=tag)
    srecs = []
    observed = {}
    unjudged = 0
    for i, o in enumerate(outs):
        st, out = srctrace.status_of(o)
        if st is None and (o.get('run') or {}).get('diverged'):
            st = 'diverged'
        ast = progs[i].get('ast') or o.get('ast')
        if ast is None and st == 'reject' and progs[i].get('ast') is None:
            unjudged += 1          # corpus text the parser rejects: no AST to give to the semantics
            continue
        if st is None or ast is None:
            unjudged += 1
            continue
        observed[i] = (st, out)
        srecs.append(srctrace.source_record(i, ast, st, out))
    # a sample through the real command line (process exit status and stdout are what the property talks about)
    if cli_sample:
        rng = rng or random.Random(seed())
        ids = [r['id'] for r in srecs]
        forced = [i for i in ids if cli_force is not None and cli_force(progs[i]['name'])]
        rest = [i for i in ids if i not in set(forced)]
        for i in forced + rng.sample(rest, min(cli_sample, len(rest))):
            rc, so, se = cli_run(exe, progs[i]['text'], wd)
            st = cli_status(rc)
            if st is None:
                continue
            # in the CLI a rejection and a run-time failure both exit non-zero; distinguish by what the in-process stages said
            if st == 'fail' and observed[i][0] == 'reject':
                st = 'reject'
            j = len(progs) + i
            ast = progs[i].get('ast') or outs[i].get('ast')
            observed[j] = (st, list(so))
            srecs.append(srctrace.source_record(j, ast, st, list(so), proc={'errempty': len(se) == 0}))
    verdicts, rs = srctrace.validate(srecs, wd, tag=tag, budget=budget)
    for r in rs:
        chk.add_tlc(r)
    # `this` in a method found in an ancestor is "the host object of the method" (README): the object that defines it.  (Until round 5 a program that disagreed under
    # this reading and had met a delegated method was retried with `this` = the original receiver, as in Feeny, and accepted if that agreed; the README is clear enough
    # and the leniency hid a seeded change, so it was removed.  FMLSource still has the mode switch; nothing sets it.)
    judged = 0
    for r in srecs:
        v = verdicts[r['id']]
        i = r['id'] if r['id'] < len(progs) else r['id'] - len(progs)
        via = 'in-process' if r['id'] < len(progs) else 'fml run (subprocess)'
        if v['verdict'] == 'spec-invariant':
            raise ToolError('FMLSource step property violated on %s (specification defect)' % progs[i]['name'])
        if v['verdict'] == 'budget' or not v['frag']:
            unjudged += 1
            continue
        judged += 1
        chk.count(hashlib.sha1(progs[i]['text'].encode()).hexdigest())
        if not v['agree']:
            st, out = observed[r['id']]
            chk.violation('%s [%s]: semantics says %s with %d bytes of output, implementation %s with %d bytes' % (
                progs[i]['name'], via, v['st'], v['outlen'], st, len(out)),
                {'program': progs[i]['name'], 'source': progs[i]['text'], 'via': via,
                 'expected': {'status': v['st'], 'out': bytes(v['specout']).decode('utf-8', 'replace')},
                 'observed': {'status': st, 'out': bytes(out).decode('utf-8', 'replace')},
                 'signature': {'kind': 'outcome', 'expected': v['st'], 'observed': st}})
    chk.traces += judged
    chk.notes['not_judged_outside_fragment_or_budget'] = chk.notes.get('not_judged_outside_fragment_or_budget', 0) + unjudged
    return outs, verdicts


def c01(tier):
    chk = Check('C01', tier)
    chk.rule = ('programs = in-repo corpus (+ edge and limit programs) + seeded random programs in the defined fragment (AST generated, unparsed with random parenthesization/layout, '
                'so the real parser is in the loop) + every construct x context x frame kind (+ construct pairs, thorough) + definitions sandwiched between control flow in every frame kind; each is run through parse, compile, '
                'serialize, load, interpret in-process and a sample through the real `fml run`; TLC runs the README semantics FMLSource on the AST and compares '
                'status and output. distinct_nontrivial = distinct source texts judged inside the fragment.')
    exe = build('debug')
    wd = scratch('c01')
    progs = pool.corpus() + pool.random_programs(tier_sizes(tier, 300, 8000), size=tier_sizes(tier, 30, 45)) + \
        pool.construct_family(pairs=(tier == 'thorough'), limit=tier_sizes(tier, 400, None)) + pool.sandwich_programs() + pool.let_slot_programs() + pool.assign_slot_programs()
    # the real command line (exit status, stderr) for a sample, and always for the edge programs and for every construct placed as the last statement of the program
    outs, vs = judge_programs(chk, exe, progs, wd, 'c01', cli_sample=tier_sizes(tier, 60, 600),
                              cli_force=lambda n: n.startswith('edge:') or '/top_last/' in n or n.startswith('sandwich:if/two/'))
    k = 0
    for i, p in enumerate(progs):
        if i in vs and vs[i]['agree'] and vs[i]['frag'] and vs[i]['outlen'] > 0 and p['name'].startswith('gen') and k < 3:
            st, out = srctrace.status_of(outs[i])
            chk.sample({'program': p['name'], 'source': p['text'][:300], 'status': st, 'out': bytes(out).decode('utf-8', 'replace')[:120], 'spec_steps': vs[i]['steps']})
            k += 1
    chk.assumptions = ['TLC', 'FMLSource is the README (self-tested on the in-repo corpus with expected outputs)', 'the AST normalization norm.rs / the Python unparser']
    rm(wd)
    return chk.finish()


# ------------------------------------------------------------------------------------------------ C12
from gen import *
from unparse import unparse, strip_marks


def scope_ast(toks, context, prelude):
    """prefix-notation statement sequence (from MC_Scope) -> program AST in the given context"""
    k = [0]
    pos = [0]

    def lit():
        k[0] += 1
        return I(k[0])

    def stmt():
        t = toks[pos[0]]
        pos[0] += 1
        if t == 'letx': return Let('x', lit())
        if t == 'lety': return Let('y', lit())
        if t == 'letxx': return Let('x', Op('+', V('x'), lit()))
        if t == 'letxeq': return Let('x', V('x'))
        if t == 'setx': return Asg('x', lit())
        if t == 'sety': return Asg('y', lit())
        # a read is written directly or, at every other token position, through the field initializer of an object created on the spot
        # (field initializers are evaluated in the enclosing scope, unlike method bodies)
        if t in ('readx', 'ready'):
            v = t[4]
            if pos[0] % 2 == 0:
                return Pr(v + '=~\\n', [GF(Obj(N(), [Let('w', I(0)), Let('v', V(v))]), 'v')])
            return Pr(v + '=~\\n', [V(v)])
        if t == 'callf': return Call('f', [])
        if t == 'callm': return MC(V('o'), 'm', [])
        if t == 'methrx': return Pr('mx=~\\n', [MC(Obj(N(), [Fun('g', [], V('x'))]), 'g', [])])
        if t == 'methwx': return MC(Obj(N(), [Fun('g', [], Asg('x', lit()))]), 'g', [])
        if t == 'begin':
            es = []
            while toks[pos[0]] != 'end':
                es.append(stmt())
            pos[0] += 1
            return Blk(es)
        if t == 'ift':
            return If(B(True), stmt())
        if t == 'iff':
            a = stmt()
            b = stmt()
            return If(B(False), a, b)
        if t == 'wh':
            return Wh(Call('once', []), stmt())
        raise ValueError(t)
    body = []
    while pos[0] < len(toks):
        body.append(stmt())
    helpers = [Let('flag', I(0)),
               Fun('once', [], Blk([Asg('flag', Op('+', V('flag'), I(1))), Op('==', Op('%', V('flag'), I(2)), I(1))])),
               Fun('f', [], Blk([Pr('f:~\\n', [V('x')]), Asg('x', I(900)), V('y')])),
               Let('o', Obj(N(), [Fun('m', [], Blk([Pr('m:~\\n', [V('y')]), Asg('y', I(800)), V('x')]))]))]
    pre = ([Let('x', I(100)), Let('y', I(200))] if prelude else []) + helpers
    end = [Pr('end ~ ~\\n', [V('x'), V('y')])]
    if context == 'top':
        es = pre + body + end
    elif context == 'block':
        es = pre + [Blk(body)] + end
    elif context == 'fun':
        es = pre + [Fun('g', [], Blk(body)), Call('g', [])] + end
    else:
        es = pre + [Let('h', Obj(N(), [Fun('g', [], Blk(body))])), MC(V('h'), 'g', [])] + end
    return Top(es)


CONTEXTS = [(c, p) for c in ('top', 'block', 'fun', 'meth') for p in (True, False)]


def shadow_relevant(toks):
    """a let inside a block meets another mention of the same name (shadowing, leaving scopes)"""
    depth = 0
    for i, x in enumerate(toks):
        if x == 'begin':
            depth += 1
        elif x == 'end':
            depth -= 1
        elif x.startswith('let') and depth > 0:
            v = x[3]
            if any(y in ('let' + v, 'let' + v + v, 'let' + v + 'eq', 'set' + v, 'read' + v, 'methr' + v, 'methw' + v) for j, y in enumerate(toks) if j != i):
                return True
    return False


def sibling_relevant(toks):
    """two blocks one after the other at the same level, a let in the first and a mention of the same name in or after the second"""
    depth = 0
    blocks = []
    cur = None
    for i, x in enumerate(toks):
        if x == 'begin':
            depth += 1
            if depth == 1:
                cur = [i, None]
        elif x == 'end':
            if depth == 1:
                cur[1] = i
                blocks.append(cur)
            depth -= 1
    if len(blocks) < 2:
        return False
    b1, b2 = blocks[0], blocks[1]
    for v in 'xy':
        if 'let' + v in toks[b1[0]:b1[1]] and any(y in ('read' + v, 'set' + v, 'methr' + v, 'methw' + v) for y in toks[b2[0]:]):
            return True
    return False


def copy_relevant(toks):
    """let x = x inside a block over an x declared in the same frame, changed inside the block and read after it (the copy must not alias the original)"""
    if 'letxeq' not in toks:
        return False
    i = toks.index('letxeq')
    depth_at = lambda k: toks[:k].count('begin') - toks[:k].count('end')
    if depth_at(i) == 0 or not any(t in ('letx', 'letxx') and depth_at(k) < depth_at(i) for k, t in enumerate(toks[:i])):
        return False
    rest = toks[i + 1:]
    if 'end' not in rest:
        return False
    e = rest.index('end')
    return any(t in ('setx', 'methwx') for t in rest[:e]) and any(t in ('readx', 'methrx', 'callf') for t in rest[e:])


SIMILAR_NAMES = ['x', 'x1', 'x10', 'x11', 'x2', 'x0', 'x_', 'xx', 'y', 'y1', 'y10', '_', '_1', 'this', 'this1']       # (this is an ordinary name: it can be a parameter in any position and can be shadowed)


def many_scopes_program(k):
    """a frame (top level / top-level block / function / method) with 9-14 blocks (siblings, some nested) and variables whose names are
    textual extensions of one another (x, x1, x10, ...): every block declares some, prints every name visible in it and assigns one;
    globals of the same names are read from inside callables.  All uses are dominated by their definitions (inside the defined fragment)."""
    r = random.Random(k * 7919 + 13)
    frame = ('fun', 'meth', 'block', 'top')[k % 4]
    lit = [0]

    def nxt():
        lit[0] += 1
        return I(lit[0])
    glob = r.sample(SIMILAR_NAMES, r.randint(2, 5))
    params = r.sample(SIMILAR_NAMES, r.randint(0, 3)) if frame in ('fun', 'meth') else []
    if frame == 'meth':
        params = [p for p in params if p != 'this']        # a method already has its receiver under that name; the README does not say what a second, explicit `this` parameter means
    budget = [r.randint(9, 14)]

    def show(vis):
        ns = sorted(vis)
        return Pr(' '.join('%s=~' % n for n in ns) + '\\n', [V(n) for n in ns])

    def body(vis, depth):
        es = []
        for n in r.sample(SIMILAR_NAMES, r.randint(0, 2)):
            es.append(Let(n, nxt() if r.random() < 0.8 else N()))          # (sometimes initialised with the literal null)
            vis = vis | {n}
        es.append(show(vis))
        while budget[0] > 0 and (depth == 0 or r.random() < 0.4):
            budget[0] -= 1
            es.append(Blk(body(set(vis), depth + 1)))
            if vis and r.random() < 0.5:
                es.append(Asg(r.choice(sorted(vis)), nxt()))
            if r.random() < 0.3:
                n = r.choice(SIMILAR_NAMES)
                es.append(Let(n, nxt()))
                vis = vis | {n}
        es.append(show(vis))
        return es
    top = [Let(g, nxt()) for g in glob]
    if frame == 'top':
        top += body(set(glob), 0)
    elif frame == 'block':
        top.append(Blk(body(set(glob), 0)))
    elif frame == 'fun':
        top.append(Fun('f', params, Blk(body(set(glob) | set(params), 0))))
        top.append(Pr('r=~\\n', [Call('f', [nxt() for _ in params])]))
    else:
        top.append(Let('o', Obj(N(), [Let('fld', nxt()), Fun('m', params, Blk(body(set(glob) | set(params), 0)))])))
        top.append(Pr('r=~\\n', [MC(V('o'), 'm', [nxt() for _ in params])]))
    top.append(show(set(glob)))
    return Top(top)


def c12(tier):
    chk = Check('C12', tier)
    maxlen = 5
    chk.rule = ('TLC enumerates on the fly every statement sequence (MC_Scope: let/assign/read of x and y, call f, call o.m, inline objects whose method reads/assigns the free name x, begin/end to depth 2, if-true, if-false-else, '
                'while-once) up to %d statements; each is placed at top level, in a top-level block, in a function body and in a method body, with and without global x, y '
                '(thorough: all 8 placements up to length %d, one placement round-robin beyond; quick: 8 placements to length 2, 1-4 at length 3, two placements for every length-4 sequence in which a block-local let meets another mention of the same name and for every length-5 sequence with two sibling blocks sharing a name or with a copy let x = x that is changed inside its block and read after it), written literals numbered; TLC runs the README semantics FMLSource on the AST (scope '
                'stack, LeaveRestores and CallIsolated checked in every state) and the real pipeline must print the same values and stop at the same point. '
                'Plus seeded frames with 9-14 blocks (siblings and nested) whose variables have names that are textual extensions of one another (x, x1, x10, ...), every block printing every visible name; and a let written directly in each of 17 operand slots (array size, argument, receiver, operand, index, condition, field initializer, parent, ...) with its variable used afterwards, in every frame kind. '
                'distinct_nontrivial = distinct programs judged inside the fragment.' % (maxlen, 4 if tier == 'thorough' else 3))
    exe = build('debug')
    wd = scratch('c12')
    r = tlc_or_die('MC_Scope', env={'MAXLEN': str(maxlen)}, workers=8, timeout=1800)
    chk.add_tlc(r)
    seqs = [g['toks'] for g in r.lines.get('REPLAY', [])]
    seqs.sort(key=lambda t: (len(t), t))
    chk.notes['statement_sequences_enumerated'] = len(seqs)
    progs = []
    full_len = 4 if tier == 'thorough' else 3
    for si, toks in enumerate(seqs):
        nst = len([t for t in toks if t != 'end'])
        if tier == 'thorough':
            places = CONTEXTS if nst <= full_len else [CONTEXTS[si % len(CONTEXTS)]]
        elif nst <= 2:
            places = CONTEXTS
        elif nst == 3:
            # four of the eight placements when a block-local let meets another mention of its name, two otherwise
            places = CONTEXTS[(si % 2)::2] if shadow_relevant(toks) else [CONTEXTS[si % 8]]
        elif nst == 4 and shadow_relevant(toks):
            places = [('fun', True), ('block', True)] if si % 2 == 0 else [('meth', True), ('top', True)]
        elif nst == 5 and sibling_relevant(toks):
            places = [('fun', True), ('block', True)] if si % 2 == 0 else [('meth', True), ('block', False)]
        elif nst == 5 and copy_relevant(toks):
            places = [('fun', True), ('block', True), ('meth', False), ('top', True)]
        else:
            continue
        for (c, p) in places:
            ast = scope_ast(toks, c, p)
            progs.append({'name': 'scope:%s/%s/%s' % (' '.join(toks), c, 'globals' if p else 'noglobals'), 'text': unparse(ast), 'ast': strip_marks(ast)})
    # many scopes in one frame, names that are textual extensions of one another
    nmany = tier_sizes(tier, 160, 4000)
    for k in range(nmany):
        ast = many_scopes_program(seed() * 100003 + k)
        progs.append({'name': 'manyscopes:%d' % (seed() * 100003 + k), 'text': unparse(ast), 'ast': strip_marks(ast)})
    chk.notes['many_scopes_programs'] = nmany
    # a let written directly in an operand slot declares its variable in the scope the expression stands in
    ls = pool.let_slot_programs() + pool.assign_slot_programs() + [p for p in pool.corpus() if p['name'].startswith('edge:')]
    progs += ls
    chk.notes['let_in_operand_slot_programs'] = len(ls)
    chk.notes['programs'] = len(progs)
    chunk = 20000
    agg = {'done': 0, 'fail': 0, 'reject': 0}
    for b in range(0, len(progs), chunk):
        part = progs[b:b + chunk]
        outs, vs = judge_programs(chk, exe, part, wd, 'c12_%d' % b, budget=3000)
        for v in vs.values():
            if v['frag'] and v['st'] in agg:
                agg[v['st']] += 1
        if b == 0:
            for i in (len(part) // 2, len(part) - 1):
                if i in vs:
                    st, out = srctrace.status_of(outs[i])
                    chk.sample({'program': part[i]['name'], 'source': part[i]['text'], 'prescribed': vs[i]['st'], 'observed': st, 'out': bytes(out).decode('utf-8', 'replace')})
    chk.notes['prescribed_outcomes_inside_fragment'] = agg
    chk.exhaustive = True
    chk.notes['exhaustive_scope'] = 'all statement sequences of the MC_Scope grammar up to the stated length, in the stated placements'
    chk.assumptions = ['TLC', 'FMLSource scoping rules (DESIGN §3.7)', 'the token-to-AST conversion of the driver (structural only)']
    rm(wd)
    return chk.finish()


# ------------------------------------------------------------------------------------------------ C13
SIG = {'call0': [], 'call1': ['int'], 'call2': ['int'] * 2, 'call3': ['int'] * 3, 'rcall2': ['int'] * 2, 'rcall3': ['int'] * 3, 'mcall': ['obj', 'int', 'int'], 'op': ['int', 'int'], 'cmp': ['int', 'int'],
       'obj0': ['par'], 'obj1': ['par', 'int'], 'obj2': ['par', 'int', 'int'], 'obj3': ['par', 'int', 'int', 'int'],
       'arrs': ['size'], 'arrc0': ['size0', 'int'], 'arrc1': ['size1', 'int'], 'arrc2': ['size2', 'int'], 'arrc3': ['size3', 'int'],
       'index': ['arr', 'idx'], 'setindex': ['arr', 'idx', 'int'], 'oindex': ['obj', 'idx'], 'osetindex': ['obj', 'idx', 'int'], 'getfield': ['obj'], 'setfield': ['obj', 'int'], 'if': ['bool', 'int', 'int'],
       'print0': [], 'print1': ['int'], 'print2': ['int'] * 2, 'print3': ['int'] * 3, 'while0': [], 'while1': [], 'while2': [], 'let': ['int'], 'assign': ['int']}
METHOD_M = lambda: Fun('m', ['a', 'b'], Blk([Pr('m;'), Op('-', V('a'), V('b'))]))
# objects used as indexable receivers: get / set announce the arguments they were entered with
METHODS_GS = lambda: [Fun('get', ['i'], Blk([Pr('get ~;', [V('i')]), Op('+', V('i'), I(40))])), Fun('set', ['i', 'v'], Blk([Pr('set ~ ~;', [V('i'), V('v')]), Op('-', V('v'), V('i'))]))]


def evalorder_ast(shape):
    """prefix-notation shape (from MC_EvalOrder) -> program; markers numbered in textual order"""
    pos = [0]
    mark = [0]

    def leaf(kind, tok):
        mark[0] += 1
        k = mark[0]
        if kind == 'bool':
            v = B(tok == 'T')
        elif kind == 'arr':
            v = Arr(I(2), I(0))
        elif kind == 'obj':
            v = Obj(N(), [Let('f', I(1)), METHOD_M()] + METHODS_GS())
        elif kind == 'par':
            v = N()
        elif kind.startswith('size'):
            v = I(int(kind[4:]) if len(kind) > 4 else 2)
        elif kind == 'idx':
            v = I(0)
        else:
            v = I(10 + k)
        return Blk([Pr('%d;' % k), v])

    def term(kind):
        tok = shape[pos[0]]
        pos[0] += 1
        if tok in ('L', 'T', 'F'):
            return leaf(kind, tok)
        args = [term(k) for k in SIG[tok]]
        return build(tok, args)

    def build(c, a):
        if c.startswith('call'):
            return Call('f' + c[4:], a)
        if c.startswith('rcall'):
            return Call('r' + c[5:], a)
        if c == 'mcall':
            return MC(a[0], 'm', a[1:])
        if c == 'op':
            return Op('-', a[0], a[1])
        if c == 'cmp':
            return Op('<=', a[0], a[1])
        if c.startswith('obj'):
            fields = [Let('f', I(1))] + [Let('g%d' % i, x) for i, x in enumerate(a[1:])]
            methods = [METHOD_M()] + METHODS_GS()
            return Obj(a[0], methods + fields if len(a) in (1, 3) else fields + methods)      # a field or a method as the last member
        if c == 'arrs':
            return Arr(a[0], I(7))
        if c.startswith('arrc'):
            return Arr(a[0], a[1])
        if c in ('index', 'oindex'):
            return Ix(a[0], a[1])
        if c in ('setindex', 'osetindex'):
            return SIx(a[0], a[1], a[2])
        if c == 'getfield':
            return GF(a[0], 'f')
        if c == 'setfield':
            return SF(a[0], 'f', a[1])
        if c == 'if':
            return If(a[0], a[1], a[2])
        if c.startswith('print'):
            return Pr(' '.join(['~'] * len(a)) + ';', a)
        if c.startswith('while'):
            kk = int(c[5:])
            return Blk([Asg('n', I(0)), Wh(Blk([Pr('c;'), Op('<=', Asg('n', Op('+', V('n'), I(1))), I(kk))]), Blk([Pr('b;'), V('n')]))])
        if c == 'let':
            return Let('z', a[0])
        if c == 'assign':
            return Asg('n', a[0])
        raise ValueError(c)
    e = term('any')
    prelude = [Let('n', I(0)),
               Fun('f0', [], Blk([Pr('f0;'), I(10)])), Fun('f1', ['a'], Blk([Pr('f1;'), V('a')])),
               Fun('f2', ['a', 'b'], Blk([Pr('f2;'), Op('-', V('a'), V('b'))])),
               Fun('f3', ['a', 'b', 'c'], Blk([Pr('f3;'), Op('-', Op('-', V('a'), V('b')), V('c'))])),
               Fun('r2', ['a', 'b'], Op('-', V('b'), V('a'))), Fun('r3', ['a', 'b', 'c'], Op('-', V('c'), Op('-', V('b'), V('a'))))]     # one-line bodies, parameters used in reverse order
    return Top(prelude + [Pr(' R=~\\n', [e])])


COUNT_PROBES = [
    ('array-of-constant-arrays', 'let a = array(3, array(2, 0)); a[0][0] <- 7; print("~\\n", a)'),
    ('array-of-constant-arrays-var', 'let z = 0; let a = array(2, array(2, z)); a[1][1] <- 5; print("~\\n", a)'),
    ('array-of-constant-objects', 'let a = array(2, object begin let v = 0 end); a[0].v <- 1; print("~\\n", a)'),
    ('array-of-objects-extending-var', 'let p = 5; let a = array(2, object extends p begin let v = 0 end); a[1].v <- 9; print("~ ~\\n", a, a[0] + 1)'),
    ('array-of-array-of-arrays', 'let a = array(2, array(2, array(1, 0))); a[0][0][0] <- 1; a[1][0] <- null; print("~\\n", a)'),
    ('array-of-field-of-var', 'let o = object begin let f = array(1, 0) end; let a = array(2, o.f); a[0][0] <- 3; print("~ ~\\n", a, o)'),
    ('discarded-field-of-call', 'let c = 0; function mk(k) -> begin c <- c + 1; print("mk~;", k); object begin let v = k end end; mk(1).v; begin mk(2).v; print("mid\\n") end; let i = 0; while i < 2 do begin i <- i + 1; mk(i).v end; print("c=~\\n", c)'),
    ('discarded-index-of-call', 'let c = 0; function mk(k) -> begin c <- c + 1; array(2, k) end; mk(1)[0]; begin mk(2)[1]; 0 end; if true then mk(3)[0] else 0; print("c=~\\n", c)'),
    ('discarded-nested-field', 'let c = 0; function mk(k) -> begin c <- c + 1; object begin let v = k end end; mk(mk(2)).v.v; print("c=~\\n", c)'),
    ('discarded-variable-and-field', 'let o = object begin let v = 1 end; function g(a, b) -> print("~ ~\\n", a, b); g(1, begin o.v; o; 2 end)'),
    ('array-size-variable-changed-by-initializer', 'let n = 4; let a = array(n, begin n <- n - 1; n end); print("~ ~\\n", a, n)'),
    ('array-size-variable-changed-by-called-function', 'let n = 3; function dec() -> begin n <- n - 1; n end; print("~ ~\\n", array(n, dec()), n)'),
    ('array-size-field-changed-by-initializer', 'let o = object begin let n = 3 end; print("~\\n", array(o.n, begin o.n <- o.n - 1; o.n end))'),
    ('literal-size-0-effectful-initializer', 'let c = 0; function t() -> begin c <- c + 1; print("init~;", c); c end; let a = array(0, t()); let b = array(1, t()); let d = array(2, t()); print("~ ~ ~ ran ~\\n", a, b, d, c)'),
    ('literal-size-negative-effectful-initializer', 'let c = 0; function t() -> begin c <- c + 1; print("init~;", c); c end; print("before\\n"); let a = array(-1, t()); print("never ~\\n", c)'),
    ('literal-size-1-block-initializer', 'let a = array(1, begin print("once;"); 5 end); print("~\\n", a)'),
    ('array-initializer-operator-on-plain-operands', 'let d = object begin let n = 0; function +(k) -> begin this.n <- this.n + k; print("issue ~;", this.n); this.n end; function *(k) -> begin this.n <- this.n + 10; this.n end; '
     'function ==(k) -> begin this.n <- this.n + 100; true end; function get(i) -> begin this.n <- this.n + 1000; i end; function m() -> begin this.n <- this.n + 10000; 0 end end; let one = 1; '
     'print("~ ", array(3, d + 1)); print("~ ", array(2, d * one)); print("~ ", array(2, d == null)); print("~ ", array(2, d[0])); print("~ ", array(2, d.m())); print("~ ", array(2, one + d.n)); print("~\\n", d.n)'),
    ('array-of-size-zero-never-runs-its-initializer', 'let missing = null; let z = 0; print("~ ~\\n", array(0, missing + 1), array(z, 1 / z)); print("~\\n", array(1, missing == null))'),
    ('one-line-helpers-and-argument-order', 'let n = 0; function t(v) -> begin n <- n + 1; print("t~=~;", n, v); v end; function below(limit, value) -> value < limit; function first(a, b) -> a; function twice(a) -> a + a; '
     'function swap3(a, b, c) -> c * 100 + b * 10 + a; let x = 5; print("~ ", below(t(10), t(3))); print("~ ", below(x, x <- 0)); print("~ ", first(t(1), t(2))); print("~ ", twice(t(4))); print("~ ~\\n", swap3(t(1), t(2), t(3)), n)'),
    ('condition-compared-with-true', 'let flag = 1; if flag == true then print("T;") else print("F;"); let o = object begin function ==(k) -> begin print("eq;"); false end end; if o == true then print("T;") else print("F;"); '
     'let jobs = 0; function pending() -> begin jobs <- jobs + 1; print("p~;", jobs); jobs end; while pending() == true do print("never;"); '
     'if (1 == true) == false then print("T;") else print("F;"); if true == flag then print("T;") else print("F;"); if flag != false then print("T\\n") else print("F\\n")'),
    ('discarded-operator-on-plain-operands', 'let o = object begin let n = 0; function +(k) -> begin this.n <- this.n + k; this.n end; function ==(k) -> begin this.n <- this.n + 100; true end; function <(k) -> begin this.n <- this.n + 1000; false end end; let five = 5; '
     'o + 5; o + five; begin o + 1; 0 end; o == null; o < 3; let i = 0; while i < 2 do begin o + 10; i <- i + 1 end; if true then o + 20 else o + 40; function f() -> begin o + 7; 0 end; f(); print("~\\n", o.n)'),
    ('discarded-operator-on-fields', 'let o = object begin let n = 0; let w = object begin let v = 2 end; function *(k) -> begin this.n <- this.n + k; this end end; o * o.w.v; o.w.v * 3; o * 1 * 2; o.*(4); print("~\\n", o.n)'),
    ('discarded-index-and-call-on-plain-operands', 'let o = object begin let n = 0; function get(i) -> begin this.n <- this.n + 1; i end; function set(i, v) -> begin this.n <- this.n + 10; v end; function m() -> begin this.n <- this.n + 100; 0 end end; '
     'o[0]; o[1] <- 2; o.m(); o.get(3); begin o[0]; o.m(); 0 end; print("~\\n", o.n)'),
    ('loop-condition-count', 'let n = 0; function c() -> begin n <- n + 1; print("c~;", n); n < 3 end; while c() do print("b;"); print(" n=~\\n", n)'),
    ('object-parent-once', 'let n = 0; function p() -> begin n <- n + 1; null end; let o = object extends p() begin let a = p(); let b = p() end; print("~ ~\\n", n, o)'),
]


def c13(tier):
    chk = Check('C13', tier)
    chk.rule = ('TLC enumerates all typed expression shapes to depth 2 (MC_EvalOrder: calls with 0-3 arguments, method call, operators, object with parent and 0-3 fields, '
                'calls of one-line functions that use their parameters in reverse order, array(size, constant), array(size 0-3, compound), index, indexed and field assignment, both also on an object whose get / set announce the arguments they receive, if, while with 0-2 iterations, print 0-3, let, assign); every operand '
                'position holds a numbered marker begin print("k;"); v end or a nested shape; the printed marker sequence (order and multiplicity) prescribed by FMLSource, '
                'run by TLC, must equal what the real pipeline prints. Quick: all shapes with at most one nested operand + a 1/24 stride of the rest; thorough: all. distinct_nontrivial = distinct shapes judged.')
    exe = build('debug')
    wd = scratch('c13')
    r = tlc_or_die('MC_EvalOrder', workers=8, timeout=1800)
    chk.add_tlc(r)
    shapes = [g['shape'] for g in r.lines.get('REPLAY', [])]
    shapes.sort(key=lambda s: (len(s), s))
    chk.notes['shapes_enumerated'] = len(shapes)
    if tier != 'thorough':
        nested = lambda s: len([t for t in s[1:] if t not in ('L', 'T', 'F')])
        few = [s for s in shapes if nested(s) <= 1]          # all shapes with at most one nested operand
        rest = [s for s in shapes if nested(s) > 1]
        shapes = few + rest[(seed() % 24)::24]
    progs = []
    for s in shapes:
        ast = evalorder_ast(s)
        progs.append({'name': 'order:' + ' '.join(s), 'text': unparse(ast), 'ast': strip_marks(ast)})
    # the same depth-1 shapes in discarded position (their side effects must still happen exactly once)
    import copy
    for sh in [x for x in shapes if all(t in ('L', 'T', 'F') for t in x[1:])]:
        ast = evalorder_ast(sh)
        shape_expr = ast['es'][-1]['args'][0]
        ast['es'][-1] = Blk([copy.deepcopy(shape_expr), Pr(' discarded\\n')])
        ast['es'].append(Wh(Op('<', Asg('n', Op('+', V('n'), I(1))), I(3)), copy.deepcopy(shape_expr)))        # ... and as a loop body
        progs.append({'name': 'order-discarded:' + ' '.join(sh), 'text': unparse(ast), 'ast': strip_marks(ast)})
    # every binary operator with a marker in both operand positions (order must not depend on the operator), kept and discarded
    for opn in ['|', '&', '==', '!=', '<', '>', '<=', '>=', '+', '-', '*', '/', '%']:
        mk = lambda k: Blk([Pr('%d;' % k), I(10 + k)])
        ast = Top([Pr(' R=~\\n', [Op(opn, mk(1), mk(2))]), Blk([Op(opn, mk(3), mk(4)), Pr(' d\\n')]), Pr(' R=~\\n', [MC(mk(5), opn, [mk(6)])])])
        progs.append({'name': 'order-operator:' + opn, 'text': unparse(ast), 'ast': strip_marks(ast)})
        # ... and with an object that defines the operator (the method must be the one that runs, with receiver and argument in source order)
        ob = lambda k: Blk([Pr('%d;' % k), Obj(N(), [Let('v', I(k)), Fun(opn, ['o'], Blk([Pr('user%s;' % opn), GF(V('this'), 'v')]))])])
        ast = Top([Pr(' R=~\\n', [Op(opn, ob(1), mk(2))])])
        progs.append({'name': 'order-user-operator:' + opn, 'text': unparse(ast), 'ast': strip_marks(ast)})
    # evaluation counts that only show through aliasing or allocation: compound initializers built from constants, effectful object expressions of discarded reads
    for nm, text in COUNT_PROBES:
        progs.append({'name': 'count:' + nm, 'text': text, 'ast': None})
    outs, vs = judge_programs(chk, exe, progs, wd, 'c13', budget=3000)
    for i in (0, len(progs) // 2, len(progs) - 1):
        st, out = srctrace.status_of(outs[i])
        chk.sample({'program': progs[i]['name'], 'source': progs[i]['text'][progs[i]['text'].find('print ( " R='):][:400], 'marker_sequence': bytes(out).decode('utf-8', 'replace')})
    chk.exhaustive = (tier == 'thorough')
    chk.assumptions = ['TLC', 'FMLSource evaluation order = the README rules (left to right; compound array initializer per element; constant initializers once)']
    rm(wd)
    return chk.finish()


# ------------------------------------------------------------------------------------------------ C14
def dispatch_ast(d):
    _, end, call = d[0], d[1], d[2]
    chain = d[3:]
    endv = {'null': N(), 'int': I(5), 'bool': B(True), 'arr': Arr(I(2), I(7)), 'false': B(False), 'zero': I(0), 'arr0': Arr(I(0), N())}[end]
    es = [Let('e', endv)]
    prev = 'e'
    for i, defs in enumerate(chain, start=1):
        ms = [Let('tag', I(i))] if defs != '0' else []
        if 'F' in defs:
            ms.append(Let('m', I(70 + i)))
        if 'M' in defs:
            ms.append(Fun('m', ['a', 'b'], Blk([Pr('M%d;' % i), Op('+', Op('+', V('a'), V('b')), GF(V('this'), 'tag'))])))
        if '>' in defs:
            ms.append(Fun('>', ['o'], Blk([Pr('>%d;' % i), Op('+', GF(V('this'), 'tag'), V('o'))])))
            ms.append(Fun('>=', ['o'], Blk([Pr('>=%d;' % i), V('o')])))
        if 'a' in defs:
            ms.append(Fun('add', ['n'], Blk([Pr('a%d;' % i), Op('*', V('n'), I(100))])))
        if 'G' in defs:
            ms.append(Fun('get', [], Blk([Pr('G%d;' % i), GF(V('this'), 'tag')])))
        if 'm' in defs:
            ms.append(Fun('m', ['a'], Blk([Pr('m%d;' % i), Op('+', V('a'), GF(V('this'), 'tag'))])))
        if '+' in defs:
            ms.append(Fun('+', ['o'], Blk([Pr('+%d;' % i), Op('+', GF(V('this'), 'tag'), V('o'))])))
        if 'g' in defs:
            ms.append(Fun('get', ['i'], Blk([Pr('g%d;' % i), Op('+', V('i'), GF(V('this'), 'tag'))])))
        if 's' in defs:
            ms.append(Fun('set', ['i', 'v'], Blk([Pr('s%d;' % i), V('v')])))
        es.append(Let('c%d' % i, Obj(V(prev), ms)))
        prev = 'c%d' % i
    es.append(Let('t', V(prev)))
    t = V('t')
    c = {'m1': MC(t, 'm', [I(10)]), 'm0': MC(t, 'm', []), 'm2': MC(t, 'm', [I(1), I(2)]), 'plus': Op('+', t, I(1)), 'and': Op('&', t, B(True)),
         'index': Ix(t, I(0)), 'setindex': SIx(t, I(1), I(9)), 'get': MC(t, 'get', [I(1)]), 'set': MC(t, 'set', [I(0), I(4)]),
         'zz': MC(t, 'zz', [I(1)]), 'field': GF(t, 'tag'), 'fieldm': GF(t, 'm'),
         'eqnull': Op('==', t, N()), 'ne5': Op('!=', t, I(5)), 'feq': MC(t, 'eq', [N()]), 'fneq': MC(t, 'neq', [I(5)]), 'add1': MC(t, 'add', [I(1)]),
         'plus0': MC(t, '+', []), 'plus2': MC(t, '+', [I(1), I(2)]), 'lt3': MC(t, '<', [I(1), I(2), I(100)]),
         'gt1': Op('>', t, I(1)), 'ge1': Op('>=', t, I(1)),
         'plus_stmt': Op('+', t, I(1)), 'm1_stmt': MC(t, 'm', [I(10)]), 'setindex_stmt': SIx(t, I(1), I(9))}[call]
    if call.endswith('_stmt'):
        es += [c, Blk([c, Pr('in block\\n')]), Pr('t=~\\n', [t]), Pr('after\\n')]       # statement position, plain operands: the value is discarded, the call is not
    else:
        es += [Pr('r=~\\n', [c]), Pr('t=~\\n', [t]), Pr('after\\n')]
    return Top(es)


def alias_ast(d):
    _, target, k1, k2, mut = d
    es = []
    if target == 'obj':
        es.append(Let('x', Obj(N(), [Let('v', I(0)), Fun('bump', [], SF(V('this'), 'v', Op('+', GF(V('this'), 'v'), I(1)))), Fun('peek', [], GF(V('this'), 'v'))])))
        wrapper = None
    else:
        es.append(Let('x', Arr(I(2), I(0))))
        es.append(Let('w', Obj(V('x'), [Fun('bump', [], SIx(V('this'), I(0), Op('+', Ix(V('this'), I(0)), I(1)))), Fun('peek', [], Ix(V('this'), I(0)))])))

    def access(kind, tag):
        """statements creating the alias + expression reaching the value through it"""
        if kind == 'var':
            return [Let('a' + tag, V('x'))], V('a' + tag)
        if kind == 'field':
            return [Let('h' + tag, Obj(N(), [Let('slot', V('x'))]))], GF(V('h' + tag), 'slot')
        if kind == 'elem':
            return [Let('r' + tag, Arr(I(1), V('x')))], Ix(V('r' + tag), I(0))
        if kind == 'arg':
            return [], V('p')          # used inside a function
        return [], (V('x') if target == 'obj' else V('w'))      # this: through a method of the value (or of its wrapper)
    sa, ea = access(k1, 'A')
    sb, eb = access(k2, 'B')
    es += sa + sb

    def mutate(e):
        if mut == 'setfield':
            return SF(e, 'v', Op('+', GF(e, 'v'), I(1)))
        if mut == 'setelem':
            return SIx(e, I(0), Op('+', Ix(e, I(0)), I(1)))
        return MC(e, 'bump', []) if target == 'obj' else MC(e, 'set', [I(0), Op('+', MC(e, 'get', [I(0)]), I(1))])

    def observe(e, label):
        inner = GF(e, 'v') if target == 'obj' else Ix(e, I(0))
        return Pr(label + ' ~ ~\\n', [inner, e])
    if k1 == 'arg':
        es.append(Fun('mutA', ['p'], mutate(V('p'))))
        mstmt = Call('mutA', [V('x')])
    elif k1 == 'this':
        mstmt = MC(ea, 'bump', [])
    else:
        mstmt = mutate(ea)
    if k2 == 'arg':
        es.append(Fun('obsB', ['p'], observe(V('p'), 'B')))
        ostmt = lambda: Call('obsB', [V('x')])
    elif k2 == 'this':
        ostmt = lambda: Pr('B ~\\n', [MC(eb, 'peek', [])])
    else:
        ostmt = lambda: observe(eb, 'B')
    # function definitions must precede their use and live at top level: move them to the front
    funs = [e for e in es if e['t'] == 'Fun']
    rest = [e for e in es if e['t'] != 'Fun']
    return Top(funs + rest + [ostmt(), mstmt, ostmt(), mstmt, ostmt(), Pr('x ~\\n', [V('x')])])


def value_ast(d):
    _, v, k1, k2 = d
    x0 = {'int': I(5), 'bool': B(True), 'null': N()}[v]
    es = [Fun('chg', ['p'], Blk([Asg('p', I(99)), V('p')])), Let('x', x0)]

    def copy(kind, tag):
        if kind == 'var':
            return [Let('a' + tag, V('x'))], V('a' + tag), Asg('a' + tag, I(99))
        if kind == 'field':
            return [Let('h' + tag, Obj(N(), [Let('slot', V('x'))]))], GF(V('h' + tag), 'slot'), SF(V('h' + tag), 'slot', I(99))
        if kind == 'elem':
            return [Let('r' + tag, Arr(I(1), V('x')))], Ix(V('r' + tag), I(0)), SIx(V('r' + tag), I(0), I(99))
        return [], V('x'), Call('chg', [V('x')])
    sa, ea, ma = copy(k1, 'A')
    sb, eb, mb = copy(k2, 'B')
    es += sa + sb + [Pr('~ ~ ~\\n', [V('x'), ea, eb]), Pr('m=~\\n', [ma]), Pr('~ ~ ~\\n', [V('x'), ea, eb])]
    return Top(es)


def c14(tier):
    chk = Check('C14', tier)
    chk.rule = ('TLC enumerates (MC_Objects) parent chains of depth 0-3 ending in null/int/bool/array whose levels define one of 8 member sets (m, +, get, set, m with another parameter count, get without parameters; overriding) x 15 '
                'calls on the outermost object (right/wrong argument counts, operators, a[i], a[i] <- v, get/set by name, unknown method, field access), and aliasing templates '
                'storage kind^2 x target x mutation (+ value semantics of int/bool/null); FMLSource (lookup along the chain, arity check where found, built-ins at the end, shared heap '
                'cells), run by TLC, prescribes each outcome; plus programs in which ONE call site meets receivers that define / inherit / override / inherit through two levels the method, in every order; `this` in an inherited method is the object that defines the method (the host object of the README). Quick: all chains of depth <= 1 + a stride of deeper ones, all '
                'aliasing templates; thorough: all. distinct_nontrivial = distinct descriptors judged.')
    exe = build('debug')
    wd = scratch('c14')
    r = tlc_or_die('MC_Objects', env=({} if tier == 'thorough' else {'STRIDE': '80', 'OFFSET': str(seed() % 80)}), workers=8, timeout=1800)
    chk.add_tlc(r)
    ds = [g['d'] for g in r.lines.get('REPLAY', [])]
    ds.sort()
    chk.notes['descriptors_enumerated'] = len(ds)       # quick: the sample is taken inside the specification (Keep)
    progs = []
    for d in ds:
        ast = {'dispatch': dispatch_ast, 'alias': alias_ast, 'value': value_ast}[d[0]](d)
        progs.append({'name': 'obj:' + '/'.join(x if x else '-' for x in d), 'text': unparse(ast), 'ast': strip_marks(ast)})
    # one call site, receivers of several classes in every order
    poly = pool.polymorphic_site_programs(limit=tier_sizes(tier, 120, None), rng=random.Random(seed() + 3))
    progs += poly
    chk.notes['polymorphic_call_site_programs'] = len(poly)
    # dispatch after many allocations (state kept per heap index or per call site must not leak between objects)
    progs += [p for p in pool.workload_programs() if 'prototypes' in p['name'] or 'allocations' in p['name'] or 'accounts' in p['name'] or 'linked-list' in p['name']]
    outs, vs = judge_programs(chk, exe, progs, wd, 'c14', budget=20000)
    amb = len([v for v in vs.values() if v.get('amb')])
    chk.notes['programs_with_delegated_method_found_in_parent'] = amb
    for i in (3, len(progs) // 2, len(progs) - 1):
        st, out = srctrace.status_of(outs[i])
        chk.sample({'program': progs[i]['name'], 'source': progs[i]['text'][:500], 'status': st, 'out': bytes(out).decode('utf-8', 'replace')})
    chk.exhaustive = (tier == 'thorough')
    chk.assumptions = ['TLC', 'FMLSource object model (DESIGN §3.7); `this` in an inherited method = the host object of the method (README)']
    rm(wd)
    return chk.finish()


# ------------------------------------------------------------------------------------------------ C10
FAULTS = {
    'unknown-variable': lambda: Pr('~\\n', [V('nosuch')]),
    'unknown-variable-assign': lambda: Asg('nosuch', I(1)),
    'unknown-function': lambda: Call('nosuchf', [I(1)]),
    'unknown-method-int': lambda: MC(I(5), 'nosuch', [I(1)]),
    'unknown-method-object': lambda: MC(V('ob'), 'nosuch', [I(1)]),
    'unknown-method-array': lambda: MC(V('ar'), 'nosuch', [I(1)]),
    'unknown-method-null': lambda: MC(N(), 'nosuch', [I(1)]),
    'unknown-field': lambda: GF(V('ob'), 'nosuch'),
    'unknown-field-assign': lambda: SF(V('ob'), 'nosuch', I(1)),
    'field-of-non-object': lambda: GF(V('ar'), 'fld'),
    'field-of-int': lambda: GF(I(3), 'fld'),
    'arity-function-more': lambda: Call('fn', [I(1), I(2)]),
    'arity-function-less': lambda: Call('fn', []),
    'arity-method': lambda: MC(V('ob'), 'me', [I(1), I(2)]),
    'arity-builtin': lambda: MC(I(1), '+', [I(2), I(3)]),
    'arity-builtin-zero': lambda: MC(I(1), '+', []),
    'arity-array-get': lambda: MC(V('ar'), 'get', [I(0), I(1)]),
    'index-negative': lambda: Ix(V('ar'), I(-1)),
    'index-too-large': lambda: Ix(V('ar'), I(2)),
    'index-assign-too-large': lambda: SIx(V('ar'), I(2), I(1)),
    'index-not-integer': lambda: Ix(V('ar'), B(True)),
    'size-negative': lambda: Arr(I(-1), I(0)),
    'size-negative-compound': lambda: Arr(I(-1), Call('fn', [I(1)])),
    'size-not-integer': lambda: Arr(B(True), I(0)),
    'size-null': lambda: Arr(N(), Call('fn', [I(1)])),
    'operand-kind-int': lambda: Op('+', I(1), B(True)),
    'operand-kind-bool': lambda: Op('&', B(True), I(1)),
    'operand-kind-null': lambda: Op('+', N(), I(1)),
    'operand-kind-cmp': lambda: Op('<', I(1), N()),
    'print-too-few': lambda: Pr('a~b~\\n', [I(1)]),
    'print-too-many': lambda: Pr('ab\\n', [I(1)]),
    'print-none-given': lambda: Pr('~'),
    'zero-divisor': lambda: Op('/', I(1), I(0)),
    'zero-remainder': lambda: Op('%', I(1), I(0)),
    'min-div-minus-one': lambda: Op('/', I(-2147483648), I(-1)),
    'min-rem-minus-one': lambda: Op('%', I(-2147483648), I(-1)),
    'duplicate-field': lambda: Obj(N(), [Let('q', I(1)), Let('q', I(2))]),
    'duplicate-method': lambda: Obj(N(), [Fun('q', [], I(1)), Fun('q', [], I(2))]),
    'operator-on-array': lambda: Op('==', V('ar'), V('ar')),
    # an object that extends a primitive is not that primitive when it is an ARGUMENT
    'operand-kind-boxed-both': lambda: Op('+', Obj(I(40), []), Obj(I(2), [])),
    'operand-kind-boxed-argument': lambda: Op('*', I(4), Obj(I(2), [Let('w', I(1))])),
    'operand-kind-boxed-boolean': lambda: Op('&', Obj(B(True), []), Obj(B(True), [])),
    # a bare name is a variable, never a field of the receiver (or of whatever object stands in the first slot of the frame)
    'bare-field-name-read': lambda: V('hf'),
    'bare-field-name-assign': lambda: Asg('hf', I(1)),
    # fields are not inherited: only methods are looked up along the parent chain
    'inherited-field-read': lambda: GF(V('kid'), 'fld'),
    'inherited-field-assign': lambda: SF(V('kid'), 'fld', I(11)),
    'inherited-field-of-grandparent': lambda: GF(Obj(V('kid'), [Let('own', I(1))]), 'fld'),
}
POSITIONS = ['top', 'block', 'loop', 'fun', 'meth', 'arg', 'cond', 'field-init', 'array-init']


def fault_program(fault, position):
    f = FAULTS[fault]()
    at = lambda p: ([f] if p == position else [])
    es = [Fun('fn', ['a'], V('a')), Let('ob', Obj(N(), [Let('fld', I(1)), Fun('me', ['a'], V('a'))])), Let('ar', Arr(I(2), I(0))), Let('kid', Obj(V('ob'), [Let('mine', I(2))])),
          Fun('g', [], Blk([Pr('F\\n')] + at('fun') + [Pr('G\\n'), I(0)])),
          Let('h', Obj(N(), [Let('hf', I(5)), Fun('k', [], Blk([Pr('H\\n')] + at('meth') + [Pr('I\\n'), I(0)]))])),
          Pr('A\\n')] + at('top') + [Pr('B\\n'),
          Blk([Pr('C\\n')] + at('block') + [Pr('D\\n')]),
          Let('i', I(0)), Wh(Op('<', V('i'), I(2)), Blk([Pr('E~\\n', [V('i')])] + at('loop') + [Asg('i', Op('+', V('i'), I(1)))])),
          Call('g', []), MC(V('h'), 'k', []),
          Pr('J ~ ~\\n', [Blk([Pr('j1;'), I(1)])] + ([f] if position == 'arg' else [I(2)])),
          If(Blk([Pr('K;')] + at('cond') + [B(True)]), Pr('L\\n'), Pr('M\\n')),
          Let('ofi', Obj(N(), [Let('p', Blk([Pr('N;'), I(1)])), Let('q', Blk(at('field-init') + [I(2)]))])),
          Let('afi', Arr(I(2), Blk([Pr('O;')] + at('array-init') + [I(3)]))),
          Pr('Z ~ ~\\n', [V('ofi'), V('afi')])]
    return Top(es)


def deep_programs(tier):
    """cyclic heaps of any size, acyclic chains, deep FML recursion, deep source nesting (C10 quantifier)"""
    big = tier == 'thorough'
    P = []
    P.append(('cycle:self-array', 'let a = array(1, null); a[0] <- a; print("x\\n"); print("~\\n", a); print("never\\n")'))
    P.append(('cycle:self-array-dispatch', 'let a = array(2, 0); a[0] <- a; print("~\\n", a[0][0][0][1]); print("~\\n", a[0] == a)'))
    P.append(('cycle:two-arrays', 'let a = array(1, null); let b = array(1, a); a[0] <- b; print("x\\n"); print("~ ~\\n", 1, b)'))
    P.append(('cycle:object-field', 'let o = object begin let me = null; let v = 1 end; o.me <- o; print("~\\n", o.me.me.v); print("~\\n", o)'))
    P.append(('cycle:parent-of-element', 'let a = array(1, null); let o = object extends a begin let f = 1 end; a[0] <- o; print("x\\n"); print("~\\n", o)'))
    P.append(('cycle:object-field-to-array', 'let a = array(2, 7); let o = object begin let arr = a end; a[1] <- o; print("x\\n"); print("~\\n", a)'))
    P.append(('cycle:unprinted-is-fine', 'let a = array(1, null); a[0] <- a; let b = array(2, 5); print("~\\n", b); print("ok\\n")'))
    n = 1000 if big else 150
    P.append(('cycle:ring-%d' % n, 'let first = array(1, null); let cur = first; let i = 0; while i < %d do begin let nx = array(1, null); cur[0] <- nx; cur <- nx; i <- i + 1 end; cur[0] <- first; print("built\\n"); print("~\\n", first)' % n))
    m = 1000 if big else 300          # (beyond 255 and 256 links)
    P.append(('chain:list-%d-print' % m, 'let l = null; let i = 0; while i < %d do begin l <- object begin let next = l; let v = i end; i <- i + 1 end; print("~\\n", l)' % m))
    P.append(('chain:parents-%d-dispatch' % m, 'let o = 5; let i = 0; while i < %d do begin o <- object extends o begin end; i <- i + 1 end; print("~\\n", o + 1); print("~\\n", o.nosuch(1))' % m))
    P.append(('cycle:after-%d-acyclic-links' % m, 'let last = object begin let next = null; let v = 0 - 1 end; last.next <- last; let l = last; let i = 0; while i < %d do begin l <- object begin let next = l; let v = i end; i <- i + 1 end; '
              'print("built\\n"); print("~\\n", l); print("never\\n")' % m))
    P.append(('cycle:two-cycle-after-%d-array-links' % m, 'let a = array(1, null); let b = array(1, a); a[0] <- b; let l = a; let i = 0; while i < %d do begin l <- array(2, l); i <- i + 1 end; print("built\\n"); print("~\\n", l); print("never\\n")' % m))
    P.append(('chain:nested-arrays-%d-print' % m, 'let a = array(1, 0); let i = 0; while i < %d do begin a <- array(1, a); i <- i + 1 end; print("~\\n", a)' % m))
    d = 3000 if big else 800
    P.append(('depth:recursion-%d' % d, 'function d(n) -> if n == 0 then 0 else 1 + d(n - 1); print("~\\n", d(%d))' % d))
    k = 100 if big else 60          # (TLC's JSON reader refuses nesting beyond 255 levels: source nesting 200 is judged by the termination rules, below)
    P.append(('nest:blocks-%d' % k, 'begin ' * k + 'print("deep\\n")' + ' end' * k))
    P.append(('nest:parens-%d' % k, 'print("~\\n", ' + '(' * k + '1' + ')' * k + ')'))
    P.append(('nest:ifs-%d' % k, 'print("~\\n", ' + 'if true then ' * k + '7' + ' else 0' * k + ')'))
    P.append(('nest:operators-%d' % k, 'print("~\\n", ' + '1 + (' * k + '1' + ')' * k + ')'))
    P.append(('nest:calls-%d' % k, 'function f(a) -> a + 1; print("~\\n", ' + 'f(' * k + '0' + ')' * k + ')'))
    # large scale: beyond what the reference semantics can execute inside TLC; judged by the termination rules only
    L = []
    L = []
    L.append(('large:cycle-after-1000-acyclic-links', 'let last = object begin let next = null; let v = 0 - 1 end; last.next <- last; let l = last; let i = 0; while i < 1000 do begin l <- object begin let next = l; let v = i end; i <- i + 1 end; '
              'print("built\\n"); print("~\\n", l); print("never\\n")'))
    EXP = {'large:cycle-after-1000-acyclic-links': (False, b'built\n'), 'large:recursion-100000': (True, b'100000\n'), 'large:ring-1000': (False, b'built\n'), 'large:parents-1000-dispatch': (False, b'6\n'), 'large:parents-70000-dispatch': (False, b'6\n'),
           'large:cycle-after-20000-allocations': (False, b'built\n'), 'large:cycle-through-object-after-5000-arrays': (False, b'built\n'), 'large:blocks-200': (True, b'deep\n'),
           'large:operators-200': (True, b'201\n'), 'large:mutual-cycle-1000': (False, b'built\n'), 'large:method-found-after-1000-parents': (True, b'7 1000\n')}
    L.append(('large:recursion-100000', 'function d(n) -> if n == 0 then 0 else 1 + d(n - 1); print("~\\n", d(100000))'))
    L.append(('large:method-found-after-1000-parents', 'let o = object begin let hits = 0; function m() -> 7 end; let i = 0; while i < 1000 do begin o <- object extends o begin end; i <- i + 1 end; print("~ ~\\n", o.m(), i)'))
    L.append(('large:ring-1000', 'let first = array(1, null); let cur = first; let i = 0; while i < 1000 do begin let nx = array(1, null); cur[0] <- nx; cur <- nx; i <- i + 1 end; cur[0] <- first; print("built\\n"); print("~\\n", first)'))
    L.append(('large:list-1000-print', 'let l = null; let i = 0; while i < 1000 do begin l <- object begin let next = l; let v = i end; i <- i + 1 end; print("~\\n", l)'))
    L.append(('large:parents-1000-dispatch', 'let o = 5; let i = 0; while i < 1000 do begin o <- object extends o begin end; i <- i + 1 end; print("~\\n", o + 1); print("~\\n", o.nosuch(1))'))
    L.append(('large:cycle-after-20000-allocations', 'let i = 0; let keep = null; while i < 20000 do begin keep <- object extends keep begin end; i <- i + 1; keep <- null end; let a = array(1, null); a[0] <- a; print("built\\n"); print("~\\n", a)'))
    L.append(('large:cycle-through-object-after-5000-arrays', 'let i = 0; while i < 5000 do begin array(1, i); i <- i + 1 end; let o = object begin let me = null end; o.me <- o; print("built\\n"); print("~\\n", o)'))
    L.append(('large:blocks-200', 'begin ' * 200 + 'print("deep\\n")' + ' end' * 200))
    L.append(('large:operators-200', 'print("~\\n", ' + '1 + (' * 200 + '1' + ')' * 200 + ')'))
    L.append(('large:mutual-cycle-1000', 'let a = array(1000, null); let i = 0; while i < 1000 do begin a[i] <- a; i <- i + 1 end; print("built\\n"); print("~\\n", a)'))
    return [{'name': n_, 'text': t, 'ast': None} for n_, t in P] + [{'name': n_, 'text': t, 'ast': None, 'large': True, 'expect': EXP.get(n_)} for n_, t in L]


TOKEN_SPLIT = None


def mutate_tokens(text, rng):
    """token-level mutation of a source text: delete / duplicate / swap adjacent / replace by another token of the program"""
    toks = text.split(' ')
    if len(toks) < 3:
        return text
    i = rng.randrange(len(toks))
    c = rng.random()
    if c < 0.3:
        del toks[i]
    elif c < 0.55:
        toks.insert(i, toks[i])
    elif c < 0.8 and i + 1 < len(toks):
        toks[i], toks[i + 1] = toks[i + 1], toks[i]
    else:
        toks[i] = rng.choice(toks + [';', ')', 'end', 'begin', '(', 'let', '=', '<-', 'else', '"', '\\\\', '99999999999', '-', '.'])
    return ' '.join(toks)


def c10(tier):
    chk = Check('C10', tier)
    chk.rule = ('(1) %d fault classes x %d statement positions (top level, block, loop body, function body, method body, pending argument, condition, field initializer, '
                'compound array initializer) injected into a program that prints before and after every position; (2) seeded random programs with a high fault rate; (3) cyclic heaps '
                '(self loop, 2-cycle, through object field / parent-of-element, ring of N), acyclic chains of N links reaching print and dispatch, FML recursion depth N, source nesting N; '
                '(4) token-level mutations of valid sources. All through the real CLI as subprocesses (`fml run`, and `fml execute` of the compiled bytes): TLC runs FMLSource on the AST and '
                'compares stdout + status, with the process rules (success <=> exit 0 + empty stderr; failure <=> normal non-zero exit + diagnostic; death by signal matches nothing); token-mutated '
                'sources are first judged by the TLA+ grammar FMLParser (program or not, which tree); those that are not programs must be rejected cleanly before any output (TraceProcess). distinct_nontrivial = distinct (program, action) observations judged.' % (len(FAULTS), len(POSITIONS)))
    exe = build('debug')
    wd = scratch('c10')
    rng = random.Random(seed())
    progs = []
    combos = [(f, p) for f in FAULTS for p in POSITIONS]
    if tier != 'thorough':
        # every class at >= 2 positions and every position with >= several classes
        combos = [(f, POSITIONS[(i + j) % len(POSITIONS)]) for i, f in enumerate(FAULTS) for j in (0, 4)]
    combos += [(f, 'meth') for f in ('bare-field-name-read', 'bare-field-name-assign') if (f, 'meth') not in combos]
    for f, p in combos:
        ast = fault_program(f, p)
        progs.append({'name': 'fault:%s@%s' % (f, p), 'text': unparse(ast), 'ast': strip_marks(ast)})
    progs += pool.random_programs(tier_sizes(tier, 60, 1500), base_seed=seed() * 9973 + 1, fault_rate=0.3, tag='faulty')
    # faults of the whole program (the README semantics rejects these before anything runs, wherever the offending definition stands)
    for n, t in [('static:function-defined-twice', 'print("a\\n"); function f() -> 1; function f() -> 2; print("~\\n", f())'),
                 ('static:function-defined-twice-other-arity', 'function f() -> 1; print("a\\n"); function f(a) -> 2; print("~\\n", f())'),
                 ('static:function-defined-twice-unused', 'print("a\\n"); function unused() -> 1; function unused() -> 1'),
                 ('static:global-defined-twice', 'let v = 1; print("a\\n"); let v = 2; print("~\\n", v)'),
                 ('static:local-defined-twice', 'function f() -> begin let v = 1; let v = 2; v end; print("a\\n"); print("~\\n", 7)'),
                 ('static:parameter-defined-twice', 'function f(a, a) -> a; print("a\\n")'),
                 ('static:function-and-global-of-one-name', 'function f() -> 1; let f = 2; print("~ ~\\n", f(), f)'),
                 ('static:call-of-undefined-function-in-unused-code', 'function report(x) -> log_value(x); function sq(x) -> x * x; print("~\\n", sq(7))'),
                 ('static:read-of-undefined-global-in-unused-code', 'function report() -> nosuchglobal; print("~\\n", 49)')]:
        progs.append({'name': n, 'text': t, 'ast': None})
    # texts that are not programs at all must be refused by `fml run` as they are by the parser (nothing printed, a diagnostic, a non-zero status)
    for n, t in [('notaprogram:shebang-line', '#!/usr/bin/env fml\nprint("a\\n")'), ('notaprogram:shebang-only', '#!fml run\n'), ('notaprogram:unterminated-string', 'print("a\\n); 1'),
                 ('notaprogram:stray-at-sign', 'print("a\\n"); @'), ('notaprogram:unterminated-comment', 'print("a\\n") /* never closed'), ('notaprogram:dangling-operator', 'print("a\\n"); 1 +')]:
        progs.append({'name': n, 'text': t, 'ast': None})
    progs += deep_programs(tier)
    base = pool.random_programs(tier_sizes(tier, 80, 2500), base_seed=seed() * 4049 + 9, fault_rate=0.0, tag='mut')
    from unparse import tokens_of, classify
    from checks_io import mutate_token_list
    import copy
    mutated_tokens = {}
    for b in base:
        toks = mutate_token_list(tokens_of(copy.deepcopy(b['ast'])), rng)
        mutated_tokens[len(progs)] = toks
        progs.append({'name': 'mutated:' + b['name'], 'text': ' '.join(toks), 'ast': None})
    # in-process pass gives ASTs (parser's for ast-less texts) and compiled bytes
    recs = [{'id': i, 'text': p['text'], 'want': ['ast', 'run'], 'budget': 10} for i, p in enumerate(progs)]        # (run with a budget of 10 instructions: only to learn whether the program can be started at all)
    outs = run_harness(exe, 'run', recs, wd, tag='c10h')
    # token-mutated sources: the TLA+ grammar (FMLParser) says which are programs; the real parser must agree (then its tree is the tree the grammar prescribes)
    trecs = []
    for i, toks in mutated_tokens.items():
        cl = [classify(x) for x in toks]
        if all(c is not None for c in cl):
            o = outs[i]
            trecs.append({'id': i, 'toks': cl, 'status': 'panic' if o.get('crash') is not None else o.get('parse', 'panic'), 'parsed': o.get('ast', {'t': 'none'})})
    if trecs:
        tpath = os.path.join(wd, 'mut.toks.ndjson')
        write_ndjson(tpath, trecs)
        rk = tlc_or_die('TraceParseTokens', env={'TOKS': tpath}, workers=8, timeout=1200, tag='c10k')
        chk.add_tlc(rk)
        kv = {v['id']: v['verdict'] for v in rk.lines.get('VERDICT', [])}
        if len(kv) != len(trecs):
            raise ToolError('TraceParseTokens: %d verdicts for %d token sequences' % (len(kv), len(trecs)))
        gram = {}
        for i, v in kv.items():
            gram[v] = gram.get(v, 0) + 1
            chk.traces += 1
            if v not in ('accepted', 'rejected'):
                chk.violation('%s: the grammar says this source is %s' % (progs[i]['name'], v), {'program': progs[i]['name'], 'source': progs[i]['text'][:3000], 'verdict': v,
                                                                                                'signature': {'kind': 'grammar', 'verdict': v}})
        chk.notes['mutated_sources_judged_by_the_TLA_grammar'] = gram
    srecs, pobs, meta = [], [], {}
    tasks = []
    for i, p in enumerate(progs):
        o = outs[i]
        src = os.path.join(wd, 'p%d.fml' % i)
        open(src, 'w', encoding='utf-8').write(p['text'])
        tasks.append((i, 'run', src))
        if 'bytes' in o:
            bc = os.path.join(wd, 'p%d.bc' % i)
            open(bc, 'wb').write(bytes(o['bytes']))
            tasks.append((i, 'execute', bc))

    def runone(task):
        i, action, target = task
        try:
            pr = subprocess.run([exe, action, target], stdout=subprocess.PIPE, stderr=subprocess.PIPE, timeout=120)
            return (i, action, pr.returncode, pr.stdout, pr.stderr)
        except subprocess.TimeoutExpired:
            return (i, action, None, b'', b'')
    from concurrent.futures import ThreadPoolExecutor
    with ThreadPoolExecutor(max_workers=12) as ex:
        results = list(ex.map(runone, tasks))
    for (i, action, rc, so, se) in results:
        p, o = progs[i], outs[i]
        ast = p['ast'] or o.get('ast')
        if rc is None:
            chk.notes['timeouts'] = chk.notes.get('timeouts', 0) + 1
            continue
        if True:
            signaled = rc < 0 or rc >= 128
            status = 'ok' if rc == 0 else ('crash' if signaled else 'fail')
            j = len(srecs) + len(pobs)
            meta[j] = (i, action, rc, so, se)
            if ast is None or p.get('large'):
                # no AST: the parser rejected the text (or died): judged at process level only; large programs: termination rules only
                exp = p.get('expect')
                pobs.append({'id': j, 'rule': 'clean' if p.get('large') else 'reject', 'exit': rc if rc >= 0 else 128 - rc, 'signaled': signaled, 'outlen': len(so), 'errempty': len(se) == 0,
                             'out': list(so[:200]), 'known': exp is not None, 'expok': bool(exp[0]) if exp else False, 'expout': list(exp[1]) if exp else []})
                continue
            # a process that stops before the program starts (parser, compiler, or the VM refusing to start it, e.g. a function defined twice) is a rejection
            if status == 'fail' and (o.get('parse') != 'ok' or o.get('compile') != 'ok' or (o.get('run') or {}).get('init', 'ok') != 'ok'):
                status = 'reject'
            srecs.append(srctrace.source_record(j, ast, status, list(so), proc={'errempty': len(se) == 0}))
    log('[c10] %d subprocess observations, %.0fs' % (len(meta), time.time() - chk.t0))
    big = [r for r in srecs if progs[meta[r['id']][0]]['name'].split(':')[0] in ('depth', 'chain', 'cycle')]
    small = [r for r in srecs if r not in big]
    vs, rs = srctrace.validate(small, wd, tag='c10s', budget=20000)
    log('[c10] small done %.0fs' % (time.time() - chk.t0))
    vb, rb = srctrace.validate(big, wd, tag='c10b', budget=400000 if tier != 'thorough' else 4000000, per_batch=4, jvms=6, workers=1, timeout=3000) if big else ({}, [])
    log('[c10] TLC done %.0fs' % (time.time() - chk.t0))
    vs.update(vb)
    for r in rs + rb:
        chk.add_tlc(r)
    classes_seen = set()
    for r in srecs:
        v = vs[r['id']]
        i, action, rc, so, se = meta[r['id']]
        if v['verdict'] == 'spec-invariant':
            raise ToolError('FMLSource step property violated on %s' % progs[i]['name'])
        if v['verdict'] == 'budget':
            chk.notes['over_budget'] = chk.notes.get('over_budget', 0) + 1
            continue
        crashed = r['status'] == 'crash'
        if not v['frag'] and not crashed and ((r['status'] == 'ok') == r['errempty']):
            # outside the fragment the output is not judged; the process rules still are (checked above through status/errempty consistency)
            chk.notes['outside_fragment_process_rules_only'] = chk.notes.get('outside_fragment_process_rules_only', 0) + 1
            chk.traces += 1
            continue
        chk.traces += 1
        chk.count((progs[i]['name'], action))
        if progs[i]['name'].startswith('fault:') and v['st'] == 'fail':
            classes_seen.add(progs[i]['name'].split('@')[0])
        if not v['agree']:
            chk.violation('%s [fml %s]: semantics says %s with %d bytes of output; process exit %s, %d bytes on stdout, stderr %s' % (
                progs[i]['name'], action, v['st'], v['outlen'], rc, len(so), 'empty' if not se else 'non-empty'),
                {'program': progs[i]['name'], 'source': progs[i]['text'][:4000], 'action': action,
                 'expected': {'status': v['st'], 'out': bytes(v['specout']).decode('utf-8', 'replace')[:2000]},
                 'observed': {'exit': rc, 'stdout': so.decode('utf-8', 'replace')[:2000], 'stderr': se.decode('utf-8', 'replace')[:600]},
                 'signature': {'kind': 'crash' if crashed else 'outcome', 'expected': v['st'], 'observed': r['status']}})
    if pobs:
        ppath = os.path.join(wd, 'pobs.ndjson')
        write_ndjson(ppath, pobs)
        rp = tlc_or_die('TraceProcess', env={'OBS': ppath}, workers=4, timeout=600)
        chk.add_tlc(rp)
        pv = {v['id']: v for v in rp.lines.get('VERDICT', [])}
        if len(pv) != len(pobs):
            raise ToolError('TraceProcess: %d verdicts for %d observations' % (len(pv), len(pobs)))
        for ob in pobs:
            i, action, rc, so, se = meta[ob['id']]
            chk.traces += 1
            chk.count((progs[i]['name'], action))
            if not pv[ob['id']]['ok']:
                chk.violation('%s [fml %s]: not a clean rejection / termination (exit %s, %d bytes on stdout, stderr %s)' % (progs[i]['name'], action, rc, len(so), 'empty' if not se else 'non-empty'),
                              {'program': progs[i]['name'], 'source': progs[i]['text'][:4000], 'observed': {'exit': rc, 'stdout': so.decode('utf-8', 'replace')[:500], 'stderr': se.decode('utf-8', 'replace')[:500]},
                               'signature': {'kind': 'crash' if ob['signaled'] else 'rejection'}})
    missing = {'fault:' + f for f in FAULTS} - classes_seen
    if missing:
        raise ToolError('C10 vacuity guard: fault classes never observed as a prescribed failure: %s' % sorted(missing))
    chk.notes.update({'fault_classes': len(FAULTS), 'positions': len(POSITIONS), 'fault_class_x_position_programs': len(combos),
                      'sources_rejected_by_parser': len(pobs), 'deep_or_cyclic_programs': len(deep_programs(tier))})
    k = 0
    for r in srecs:
        i, action, rc, so, se = meta[r['id']]
        if progs[i]['name'].startswith(('fault:', 'cycle:')) and k < 4 and action == 'run' and (k % 2 == 0 or progs[i]['name'].startswith('cycle')):
            chk.sample({'program': progs[i]['name'], 'exit': rc, 'stdout': so.decode('utf-8', 'replace')[-120:], 'stderr_head': se.decode('utf-8', 'replace')[:160], 'prescribed': vs[r['id']]['st']})
            k += 1
        elif progs[i]['name'].startswith('fault:'):
            k += 0
    chk.assumptions = ['TLC', 'FMLSource failure classes (DESIGN §3.4)', 'exit codes >= 128 or negative = death by signal']
    rm(wd)
    return chk.finish()
