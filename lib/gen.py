"""Seeded random generators of FML programs (normalized ASTs) aimed inside the defined fragment:
closed, terminating, definitions dominate uses.  Driver component only: what a program *should*
do is decided by the TLA+ source semantics (FMLSource), never here."""
import random

INT_OPS = ['+', '-', '*', '/', '%']
CMP_OPS = ['==', '!=', '<', '>', '<=', '>=']
BOOL_OPS = ['&', '|']


def I(v): return {'t': 'Int', 'v': v}
def B(v): return {'t': 'Bool', 'v': 1 if v else 0}
def N(): return {'t': 'Null'}
def V(n): return {'t': 'Var', 'n': n}
def Let(n, e): return {'t': 'Let', 'n': n, 'e': e}
def Asg(n, e): return {'t': 'Assign', 'n': n, 'e': e}
def Blk(es): return {'t': 'Block', 'es': es} if es else N()
def If(c, a, b=None): return {'t': 'If', 'c': c, 'a': a, 'b': b if b is not None else N()}
def Wh(c, b): return {'t': 'While', 'c': c, 'b': b}
def Call(n, args): return {'t': 'Call', 'n': n, 'args': args}
def MC(o, n, args): return {'t': 'MCall', 'o': o, 'n': n, 'args': args}
def Op(o, a, b): return MC(a, o, [b])
def Pr(s, args=()): return {'t': 'Print', 'f': list(s.encode('utf-8')), 'args': list(args)}
def GF(o, n): return {'t': 'GetField', 'o': o, 'n': n}
def SF(o, n, e): return {'t': 'SetField', 'o': o, 'n': n, 'e': e}
def Ix(o, i): return {'t': 'Index', 'o': o, 'i': i}
def SIx(o, i, e): return {'t': 'SetIndex', 'o': o, 'i': i, 'e': e}
def Arr(s, i): return {'t': 'Array', 'size': s, 'init': i}
def Obj(p, ms): return {'t': 'Object', 'parent': p, 'members': ms}
def Fun(n, ps, b): return {'t': 'Fun', 'n': n, 'params': ps, 'body': b}
def Top(es): return {'t': 'Top', 'es': es}


class Gen:
    """Environment-tracking generator.  kinds: 'int', 'bool', 'null', ('arr', n), ('obj', cls)
    where cls = {'fields': {name: kind}, 'methods': {name: (arity, retkind)}, 'parent': kind|None}."""

    def __init__(self, rng, size=30, fault_rate=0.03):
        self.r = rng
        self.budget = size
        self.fault_rate = fault_rate
        self.scopes = [{}]          # current frame: list of {name: kind}
        self.globals = {}           # top-level lets outside blocks
        self.funs = {}              # name -> (arity, retkind, [param kinds])
        self.counter = 0
        self.in_top_region = True   # directly at top level outside any block
        self.in_callable = False
        self.this_cls = None
        self.nolet = 0              # >0 while generating code that may execute zero or several times

    def fresh(self, p):
        self.counter += 1
        return '%s%d' % (p, self.counter)

    # ---- environment ---------------------------------------------------------
    def visible(self):
        env = {}
        if True:
            env.update(self.globals)
        for s in self.scopes:
            env.update(s)
        return env

    def vars_of(self, pred):
        return [n for n, k in self.visible().items() if pred(k)]

    def define(self, n, k):
        if self.in_top_region and len(self.scopes) == 1 and not self.in_callable:
            self.globals[n] = k
        else:
            self.scopes[-1][n] = k

    def can_define(self, n):
        if self.in_top_region and len(self.scopes) == 1 and not self.in_callable:
            return n not in self.globals
        return n not in self.scopes[-1]

    # ---- expressions by kind -------------------------------------------------
    def spend(self, n=1):
        self.budget -= n

    def lit_int(self):
        r = self.r
        c = r.random()
        if c < 0.6:
            return I(r.randint(0, 9))
        if c < 0.8:
            return I(r.randint(-20, 100))
        return I(r.choice([2147483647, -2147483648, 65536, -1, 46341, 1000000, 32768, 255, 256]))

    def e_int(self, d):
        r = self.r
        self.spend()
        if d <= 0 or self.budget <= 0:
            vs = self.vars_of(lambda k: k == 'int')
            if vs and r.random() < 0.6:
                return V(r.choice(vs))
            return self.lit_int()
        c = r.random()
        if c < 0.35:
            op = r.choice(INT_OPS)
            b = self.e_int(d - 1)
            if op in '/%' and b['t'] == 'Int' and b['v'] == 0 and r.random() > self.fault_rate:
                b = I(r.randint(1, 7))
            return Op(op, self.e_int(d - 1), b)
        if c < 0.45:
            fs = [n for n, (a, k, ps) in self.funs.items() if k == 'int']
            if fs:
                return self.call(r.choice(fs), d)
        if c < 0.55:
            arrs = self.vars_of(lambda k: isinstance(k, tuple) and k[0] == 'arr' and k[1] > 0 and k[2] == 'int')
            if arrs:
                a = r.choice(arrs)
                n = self.visible()[a][1]
                idx = r.randint(0, n - 1) if r.random() > self.fault_rate else r.choice([-1, n, n + 3])
                return Ix(V(a), I(idx)) if r.random() < 0.8 else MC(V(a), 'get', [I(idx)])
        if c < 0.65:
            objs = self.vars_of(lambda k: isinstance(k, tuple) and k[0] == 'obj')
            r.shuffle(objs)
            for o in objs:
                cls = self.visible()[o][1]
                fl = [f for f, k in cls['fields'].items() if k == 'int']
                ms = [m for m, (a, k) in cls['methods'].items() if k == 'int' and m not in ('get', 'set') and not (m[0] in '+-*/%<>=!&|')]
                if ms and r.random() < 0.5:
                    m = r.choice(ms)
                    return MC(V(o), m, [self.e_int(d - 1) for _ in range(cls['methods'][m][0])])
                if fl:
                    return GF(V(o), r.choice(fl))
        if c < 0.72:
            cnd = self.e_bool(d - 1)
            self.nolet += 1
            a, b = self.e_int(d - 1), self.e_int(d - 1)
            self.nolet -= 1
            return If(cnd, a, b)
        if c < 0.78:
            # a block whose last value is an int
            return self.block(d - 1, last=lambda: self.e_int(d - 1))
        if c < 0.82 and self.nolet == 0:
            n = self.new_name()
            e = self.e_int(d - 1)
            if self.can_define(n):
                self.define(n, 'int')
                return Let(n, e)
        if c < 0.86:
            vs = self.vars_of(lambda k: k == 'int')
            vs = [v for v in vs if not v.startswith('i_')]
            if vs:
                return Asg(r.choice(vs), self.e_int(d - 1))
        vs = self.vars_of(lambda k: k == 'int')
        if vs and r.random() < 0.7:
            return V(r.choice(vs))
        return self.lit_int()

    def e_bool(self, d):
        r = self.r
        self.spend()
        if d <= 0 or self.budget <= 0:
            vs = self.vars_of(lambda k: k == 'bool')
            if vs and r.random() < 0.5:
                return V(r.choice(vs))
            return B(r.random() < 0.5)
        c = r.random()
        if c < 0.45:
            return Op(r.choice(CMP_OPS), self.e_int(d - 1), self.e_int(d - 1))
        if c < 0.65:
            return Op(r.choice(BOOL_OPS), self.e_bool(d - 1), self.e_bool(d - 1))
        if c < 0.75:
            return Op(r.choice(['==', '!=']), self.e_any(d - 1), self.e_any(d - 1, simple=True))
        if c < 0.8:
            return Op(r.choice(['==', '!=']), N(), self.e_any(d - 1, simple=True))
        vs = self.vars_of(lambda k: k == 'bool')
        if vs and r.random() < 0.6:
            return V(r.choice(vs))
        return B(r.random() < 0.5)

    def e_any(self, d, simple=False):
        r = self.r
        c = r.random()
        if c < 0.4:
            return self.e_int(d)
        if c < 0.6:
            return self.e_bool(d)
        if c < 0.7:
            return N()
        if simple or d <= 0:
            vs = list(self.visible().keys())
            if vs:
                return V(r.choice(vs))
            return self.lit_int()
        if c < 0.85:
            return self.e_arr(d)[0]
        return self.e_obj(d)[0]

    def kind_expr(self, k, d):
        if k == 'int':
            return self.e_int(d)
        if k == 'bool':
            return self.e_bool(d)
        if k == 'null':
            return N()
        vs = self.vars_of(lambda x: x == k)
        if vs:
            return V(self.r.choice(vs))
        if isinstance(k, tuple) and k[0] == 'arr':
            return Arr(I(k[1]), self.lit_int())
        return N()

    def e_arr(self, d):
        r = self.r
        self.spend(2)
        n = r.randint(0, 4) if r.random() > self.fault_rate else -1
        c = r.random()
        if c < 0.5:
            init = self.lit_int() if r.random() < 0.7 else (V(r.choice(self.vars_of(lambda k: k == 'int'))) if self.vars_of(lambda k: k == 'int') else I(0))
        elif c < 0.8:
            self.nolet += 1
            init = self.e_int(max(d - 1, 1))       # compound initializer: re-evaluated per element
            self.nolet -= 1
            if init['t'] in ('Int', 'Var'):
                init = Op('+', init, I(1))
        else:
            cnt = [v for v in self.vars_of(lambda k: k == 'int') if not v.startswith('i_')]
            if cnt:
                v = r.choice(cnt)
                init = Blk([Asg(v, Op('+', V(v), I(1))), V(v)])
            else:
                init = Blk([Pr('e'), I(7)])
        return Arr(I(n), init), ('arr', max(n, 0), 'int')

    def e_obj(self, d, parent_kind=None):
        r = self.r
        self.spend(3)
        members = []
        cls = {'fields': {}, 'methods': {}, 'parent': None}
        parent = N()
        c = r.random()
        if c < 0.2:
            parent, pk = self.e_arr(d - 1)
            cls['parent'] = pk
        elif c < 0.3:
            parent = self.lit_int()
            cls['parent'] = 'int'
        elif c < 0.45:
            objs = self.vars_of(lambda k: isinstance(k, tuple) and k[0] == 'obj')
            if objs:
                o = r.choice(objs)
                parent = V(o)
                cls['parent'] = self.visible()[o]
        elif c < 0.5:
            parent = B(True)
            cls['parent'] = 'bool'
        nf = r.randint(0, 3)
        for _ in range(nf):
            fn = r.choice(['a', 'b', 'c', 'x', 'y', 'aa', 'ab', 'z9', '_f', 'B', 'm', 'f'])     # m, f, a, x: also method names (separate namespaces)
            if fn in cls['fields']:
                continue
            k = r.choice(['int', 'int', 'bool', 'null'])
            members.append(Let(fn, self.kind_expr(k, d - 1)))
            cls['fields'][fn] = k
        nm = r.randint(0, 2)
        for _ in range(nm):
            mn = r.choice(['m', 'k', 'get', 'set', '+', '==', 'inc', '<', '&', 'f', 'a', 'x'])
            if mn in cls['methods']:
                continue
            if mn == 'get':
                arity = 1
            elif mn == 'set':
                arity = 2
            elif mn[0] in '+-*/%<>=!&|':
                arity = 1
            else:
                arity = r.randint(0, 2)
            params = ['p%d' % i for i in range(arity)]
            body = self.callable_body(params, ['int'] * arity, d - 1, this_cls=cls)
            members.append(Fun(mn, params, body))
            cls['methods'][mn] = (arity, 'int')
        r.shuffle(members)
        return Obj(parent, members), ('obj', cls)

    def callable_body(self, params, kinds, d, this_cls=None):
        saved = (self.scopes, self.in_top_region, self.in_callable, self.this_cls)
        self.scopes = [dict(zip(params, kinds))]
        self.in_top_region = False
        self.in_callable = True
        self.this_cls = this_cls
        r = self.r
        if this_cls is not None and r.random() < 0.5:
            fl = [f for f, k in this_cls['fields'].items() if k == 'int']
            if fl:
                f = r.choice(fl)
                body = Blk([SF(V('this'), f, Op('+', GF(V('this'), f), self.e_int(d - 1))), GF(V('this'), f)]) if r.random() < 0.5 \
                    else Op('+', GF(V('this'), f), self.e_int(d - 1))
            else:
                body = self.e_int(d)
        elif r.random() < 0.5:
            body = self.block(d, last=lambda: self.e_int(d - 1))
        else:
            body = self.e_int(d)
        self.scopes, self.in_top_region, self.in_callable, self.this_cls = saved
        return body

    def call(self, fn, d):
        a, k, ps = self.funs[fn]
        n = a if self.r.random() > self.fault_rate else a + 1
        return Call(fn, [self.kind_expr(ps[i] if i < len(ps) else 'int', d - 1) for i in range(n)])

    def can_define_any(self):
        return True

    def new_name(self):
        r = self.r
        if r.random() < 0.6:
            return r.choice(['x', 'y', 'z', 'w', 'v'])
        return self.fresh('v')

    # ---- statements ----------------------------------------------------------
    def block(self, d, last=None, n=None):
        r = self.r
        saved_top = self.in_top_region
        self.scopes.append({})
        self.in_top_region = saved_top  # still "top frame", but now inside a block: lets are locals
        es = []
        for _ in range(n if n is not None else r.randint(1, 3)):
            es.append(self.stmt(d))
        if last is not None:
            es.append(last())
        self.scopes.pop()
        return Blk(es)

    def print_stmt(self, d):
        r = self.r
        k = r.randint(0, 3)
        args = []
        parts = []
        for i in range(k):
            c = r.random()
            if c < 0.5:
                args.append(self.e_int(d - 1))
            elif c < 0.7:
                args.append(self.e_bool(d - 1))
            else:
                vs = list(self.visible().keys())
                args.append(V(r.choice(vs)) if vs else N())
            parts.append(r.choice(['~', ' ~', '<~>', 'v=~', '~,']))
        text = r.choice(['', 'p ', 'é', '\\t', 'a\\\\b', '\\"q\\"', '\\~']) + ' '.join(parts) + r.choice(['\\n', '\\n', '\\n', ';', '\\r\\n'])
        if r.random() < self.fault_rate:
            text += '~'
        return Pr(text, args)

    def stmt(self, d):
        r = self.r
        self.spend()
        c = r.random()
        if self.budget <= 0 or d <= 0:
            return self.print_stmt(1)
        if c < 0.22:
            return self.print_stmt(d)
        if c < 0.42:
            n = self.new_name()
            k = r.choice(['int', 'int', 'int', 'bool', 'arr', 'obj', 'null'])
            if k == 'arr':
                e, kk = self.e_arr(d - 1)
            elif k == 'obj':
                e, kk = self.e_obj(d - 1)
            else:
                e, kk = self.kind_expr(k, d - 1), k
            if not self.can_define(n):
                n = self.fresh('u')
            self.define(n, kk)
            return Let(n, e)
        if c < 0.52:
            vs = [v for v in self.visible() if not v.startswith('i_') and v != 'this']
            if vs:
                v = r.choice(vs)
                k = self.visible()[v]
                if k in ('int', 'bool', 'null'):
                    return Asg(v, self.kind_expr(k, d - 1))
        if c < 0.6:
            return If(self.e_bool(d - 1), self.block(d - 1), self.block(d - 1) if r.random() < 0.6 else None)
        if c < 0.68:
            iv = self.fresh('i_')
            bound = r.randint(0, 3)
            pre = Let(iv, I(0))
            # the loop counter lives in the current scope; the body is a block
            if not self.can_define(iv):
                return self.print_stmt(d)
            self.define(iv, 'int')
            self.scopes.append({})
            body = [self.stmt(d - 1) for _ in range(r.randint(1, 2))]
            self.scopes.pop()
            body.append(Asg(iv, Op('+', V(iv), I(1))))
            return Blk([pre, Wh(Op('<', V(iv), I(bound)), Blk(body)), V(iv)]) if False else self._seq([pre, Wh(Op('<', V(iv), I(bound)), Blk(body))])
        if c < 0.70 and self.nolet == 0:
            # an array whose size is a variable that its own compound initializer changes (the size is fixed when the definition starts)
            sv, av = self.fresh('sz'), self.fresh('ar')
            if self.can_define(sv) and self.can_define(av):
                k = r.randint(1, 4)
                self.define(sv, 'int')
                self.define(av, ('arr', k, 'int'))
                return self._seq([Let(sv, I(k)), Let(av, Arr(V(sv), Blk([Asg(sv, Op('-', V(sv), I(1))), V(sv)]))), Pr('~ ~\\n', [V(av), V(sv)])])
        if c < 0.74:
            return self.block(d - 1)
        if c < 0.8:
            arrs = self.vars_of(lambda k: isinstance(k, tuple) and k[0] == 'arr' and k[1] > 0)
            if arrs:
                a = r.choice(arrs)
                n = self.visible()[a][1]
                idx = r.randint(0, n - 1) if r.random() > self.fault_rate else n
                return SIx(V(a), I(idx), self.e_int(d - 1))
        if c < 0.86:
            objs = self.vars_of(lambda k: isinstance(k, tuple) and k[0] == 'obj')
            if objs:
                o = r.choice(objs)
                cls = self.visible()[o][1]
                fl = list(cls['fields'].items())
                if fl and r.random() < 0.6:
                    f, k = r.choice(fl)
                    return SF(V(o), f, self.kind_expr(k, d - 1))
                ms = list(cls['methods'].items())
                if ms:
                    m, (a, k) = r.choice(ms)
                    return MC(V(o), m, [self.e_int(d - 1) for _ in range(a)])
        if c < 0.92 and self.funs:
            return self.call(r.choice(list(self.funs.keys())), d)
        if c < 0.93:
            # an operator called as a method with another number of arguments (parses; fails at run time on primitives)
            return MC(self.e_int(1), r.choice(['+', '*', '<=', '==', '&']), [self.e_int(1) for _ in range(r.choice([0, 2, 3]))])
        if c < 0.96:
            vs = list(self.visible().keys())
            if vs:
                return V(r.choice(vs))          # a discarded variable read
        return self.e_any(d - 1)

    def _seq(self, es):
        # a statement sequence spliced into the enclosing sequence is represented by a marker
        return {'t': '_Seq', 'es': es}

    def fundef(self, d):
        r = self.r
        name = self.fresh('f')
        arity = r.randint(0, 3)
        params = ['a', 'b', 'c'][:arity]
        kinds = ['int'] * arity
        body = self.callable_body(params, kinds, d)
        self.funs[name] = (arity, 'int', kinds)
        return Fun(name, params, body)

    def program(self, nstmts=None, d=3):
        r = self.r
        es = []
        n = nstmts if nstmts is not None else r.randint(3, 9)
        for _ in range(n):
            if r.random() < 0.2:
                es.append(self.fundef(d))
            else:
                es.append(self.stmt(d))
        es.append(self.print_stmt(d))
        return Top(flatten(es))


def flatten(es):
    out = []
    for e in es:
        e = splice(e)
        if e['t'] == '_Seq':
            out += flatten(e['es'])
        else:
            out.append(e)
    return out


def splice(e):
    """resolve _Seq markers nested anywhere: inside Block/Top they are spliced, elsewhere wrapped in a block"""
    if isinstance(e, list):
        return [splice(x) for x in e]
    if not isinstance(e, dict):
        return e
    t = e.get('t')
    if t in ('Block', 'Top'):
        return {'t': t, 'es': flatten(e['es'])}
    out = {}
    for k, v in e.items():
        if isinstance(v, dict):
            v = splice(v)
            if v.get('t') == '_Seq':
                v = {'t': 'Block', 'es': flatten(v['es'])}
        elif isinstance(v, list):
            v = [({'t': 'Block', 'es': flatten(x['es'])} if isinstance(x, dict) and x.get('t') == '_Seq' else splice(x)) for x in v]
        out[k] = v
    return out


def gen_program(seed, size=30, fault_rate=0.03):
    rng = random.Random(seed)
    g = Gen(rng, size=size, fault_rate=fault_rate)
    return g.program()


def node_count(e):
    if isinstance(e, dict):
        return 1 + sum(node_count(v) for v in e.values())
    if isinstance(e, list):
        return sum(node_count(v) for v in e)
    return 0


if __name__ == '__main__':
    import sys, json
    sys.path.insert(0, __file__.rsplit('/', 1)[0])
    from unparse import unparse
    for s in range(int(sys.argv[1]), int(sys.argv[2])):
        p = gen_program(s)
        print('//', s)
        print(unparse(p))


def gen_render_program(seed, n=6):
    """nested acyclic values (arrays of objects of arrays ..., field names with shared prefixes, empty ones, every parent kind) and prints of them"""
    r = random.Random(seed)
    es = []
    vals = []          # (name, kind)
    fnames = ['a', 'aa', 'ab', 'b', 'B', '_a', 'a1', 'z', 'Z', 'ba', 'a_', 'x9',
              # long names that differ only after 8 / 16 / 32 bytes, and one that is a prefix of another
              'position_y', 'position_x', 'position_', 'abcdefgh', 'abcdefghi', 'abcdefgha', 'sixteen_bytes_ab_2', 'sixteen_bytes_ab_1', 'sixteen_bytes_ab_10',
              'a_name_of_more_than_thirty_two_bytes_z', 'a_name_of_more_than_thirty_two_bytes_a']

    def atom():
        c = r.random()
        if vals and c < 0.55:
            return V(r.choice(vals)[0])
        if c < 0.7:
            return I(r.choice([0, -1, 7, 2147483647, -2147483648, 42]))
        if c < 0.8:
            return B(r.random() < 0.5)
        return N()
    for k in range(n):
        name = 'v%d' % k
        if r.random() < 0.45:
            size = r.choice([0, 1, 2, 3])
            es.append(Let(name, Arr(I(size), atom())))
            for _ in range(r.randint(0, 2)):
                if size > 0 and vals:
                    es.append(SIx(V(name), I(r.randint(0, size - 1)), atom()))
            vals.append((name, 'arr'))
        else:
            fs = r.sample(fnames, r.randint(0, 4)) if r.random() < 0.6 else r.sample(fnames[12:], r.randint(2, 5))
            parent = atom() if r.random() < 0.6 else N()
            members = [Let(f, atom()) for f in fs]
            if r.random() < 0.3:
                members.append(Fun('m', [], I(1)))
            r.shuffle(members)
            es.append(Let(name, Obj(parent, members)))
            if fs and vals and r.random() < 0.5:
                es.append(SF(V(name), r.choice(fs), atom()))
            vals.append((name, 'obj'))
        if r.random() < 0.5:
            es.append(Pr('~\\n', [V(name)]))
    k = r.randint(1, 3)
    es.append(Pr(' | '.join(['~'] * k) + '\\n', [V(r.choice(vals)[0]) for _ in range(k)]))
    # print, change something nested (a primitive goes in, so the values stay acyclic), print the containers again
    sizes = {}
    fields = {}
    for e in es:
        if e['t'] == 'Let' and e['e']['t'] == 'Array':
            sizes[e['n']] = e['e']['size']['v']
        if e['t'] == 'Let' and e['e']['t'] == 'Object':
            fields[e['n']] = [m['n'] for m in e['e']['members'] if m['t'] == 'Let']
    prim = lambda: r.choice([I(r.choice([0, -1, 7, 99])), B(r.random() < 0.5), N()])
    for _ in range(r.randint(1, 3)):
        name, kind = r.choice(vals)
        if kind == 'arr' and sizes.get(name, 0) > 0:
            es.append(SIx(V(name), I(r.randint(0, sizes[name] - 1)), prim()))
        elif kind == 'obj' and fields.get(name):
            es.append(SF(V(name), r.choice(fields[name]), prim()))
        else:
            continue
        es.append(Pr(' / '.join(['~'] * len(vals)) + '\\n', [V(v[0]) for v in vals]))
    return Top(es)
