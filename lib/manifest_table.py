"""Source of MANIFEST.json (bin/mkmanifest writes it)."""
ENTRIES = {
 'C02': dict(design='§5 C02', technique='TLA+ transition system over (method, pc, stack depth) explored by TLC on the real compiler\'s bytes (FMLVerifier), WellFormed predicate on the independently decoded program',
   text='Every method of every compiled program of a bounded-exhaustive construct x context family, of seeded random programs and of the in-repo corpus is decoded by the TLA+ reader and its whole control-flow graph x stack depth is explored by TLC; WellFormed (reference kinds, label uniqueness/locality, frame bounds, typed globals/entry) is evaluated as a state predicate. Exhaustive per program, bounded over programs.',
   note='Trusted: TLC; the TLA+ decoder (bound to the real format by C04); the per-opcode stack effects in FMLVerifier (bound to the real VM by the lock-step trace validation of C05).'),
 'C03': dict(design='§5 C03', technique='TLC-judged trace records of save/load/save/execute cycles against the TLA+ Encode/Decode (TraceBytecode) + TLC-enumerated structural programs (MC_Format) replayed into the real reader/writer',
   text='For every program of the pool the real serializer and loader are run and TLC judges loaded = Decode(bytes) = written program, re-saved bytes identical, same behaviour with and without the round trip; TLC-enumerated structural programs (every tag/opcode/width boundary, non-ASCII and empty strings, extreme ints, long sequences) are loaded and re-saved by the real code.',
   note='Trusted: TLC, Json module; harness projection of an in-memory Program (absprog.rs).'),
 'C04': dict(design='§5 C04', technique='independent TLA+ reader/writer of the documented layout evaluated by TLC on real bytes (impl->spec) and TLC-enumerated programs encoded by the spec and loaded by the real reader (spec->impl)',
   text='The documented layout is transcribed as Encode/Decode in TLA+ (sharing no code with serializable.rs); TLC checks on the spec that they are inverse over an enumerated structural space, judges every file the real compiler writes byte-for-byte against Encode(program) and checks that the real loader reads spec-encoded files as the programs they denote.',
   note='Trusted: TLC, Json module; harness projection of an in-memory Program (absprog.rs).'),
}
PENDING = {}
