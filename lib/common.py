"""Shared plumbing of the check orchestrator: guarded builds, harness driving, TLC runs,
evidence / replay / known-findings files, exit codes.  Nothing here judges a property."""
import json, os, re, subprocess, sys, time, shutil, hashlib, glob

VERIF = os.path.dirname(os.path.dirname(os.path.abspath(__file__)))
REPO = os.environ.get('VERIF_REPO', '/repo')
BUILD = os.environ.get('VERIF_BUILD', os.path.join(VERIF, 'build'))     # (VERIF_BUILD / VERIF_REPO: side-by-side experiments on another tree; the registered commands use the defaults)
SPEC = os.path.join(VERIF, 'spec')
TLA_CP = '/opt/veriftools/tla/tla2tools.jar:/opt/veriftools/tla/CommunityModules-deps.jar'
GUARD = 'kondziu_fml_verif'


class ToolError(Exception):
    pass


def log(*a):
    print(*a, file=sys.stderr, flush=True)


def seed():
    try:
        return int(os.environ.get('VERIF_SEED', '1'))
    except ValueError:
        return 1


# ------------------------------------------------------------------ build
_built = {}


def build(profile='debug'):
    """Build /repo's current working tree with the hooks on; returns the path of the fml binary."""
    if profile in _built:
        return _built[profile]
    target = os.path.join(BUILD, 'target')
    env = dict(os.environ)
    env['CARGO_TARGET_DIR'] = target
    env['RUSTFLAGS'] = '--cfg %s --check-cfg cfg(%s)' % (GUARD, GUARD)
    env['CARGO_NET_OFFLINE'] = 'true'
    cmd = ['cargo', 'build', '--offline', '--quiet', '--manifest-path', os.path.join(REPO, 'Cargo.toml')]
    if profile == 'release':
        cmd.append('--release')
    t0 = time.time()
    p = subprocess.run(cmd, env=env, stdout=subprocess.PIPE, stderr=subprocess.STDOUT, text=True)
    if p.returncode != 0:
        raise ToolError('cargo build (%s) failed:\n%s' % (profile, p.stdout[-4000:]))
    exe = os.path.join(target, profile, 'fml')
    if not os.path.exists(exe):
        raise ToolError('no binary at ' + exe)
    log('[build] %s in %.1fs' % (profile, time.time() - t0))
    _built[profile] = exe
    return exe


# ------------------------------------------------------------------ scratch
def scratch(name):
    d = os.path.join(BUILD, 'scratch', '%s-%d' % (name, os.getpid()))
    shutil.rmtree(d, ignore_errors=True)
    os.makedirs(d)
    return d


def rm(d):
    shutil.rmtree(d, ignore_errors=True)


# ------------------------------------------------------------------ harness
def run_harness(exe, cmd, records, workdir, tag='h', timeout=600, jobs=8, _confirm=True):
    """Feed records (dicts) to `fml --verif cmd`; returns outputs in order.  If the code under test
    kills the harness process (native stack overflow, abort), the record that did it gets
    {'id':..,'crash':signal/exit} and the run resumes after it.  Records are split over `jobs` processes."""
    if not records:
        return []
    n = len(records)
    jobs = max(1, min(jobs, (n + 49) // 50))
    chunks = [records[i::jobs] for i in range(jobs)]
    procs = []
    for j, ch in enumerate(chunks):
        inp = os.path.join(workdir, '%s.%d.in.ndjson' % (tag, j))
        outp = os.path.join(workdir, '%s.%d.out.ndjson' % (tag, j))
        with open(inp, 'w') as f:
            for r in ch:
                f.write(json.dumps(r) + '\n')
        if os.path.exists(outp):
            os.remove(outp)
        procs.append([ch, inp, outp, 0, [], None])
    deadline = time.time() + timeout

    def start(pr):
        env = dict(os.environ)
        env['VERIF_SKIP'] = str(pr[3])
        pr[5] = subprocess.Popen([exe, '--verif', cmd, pr[1], pr[2]], env=env, stdout=subprocess.DEVNULL, stderr=subprocess.PIPE)
    for pr in procs:
        start(pr)
    for pr in procs:
        ch, inp, outp = pr[0], pr[1], pr[2]
        while True:
            try:
                _, err = pr[5].communicate(timeout=max(1, deadline - time.time()))
            except subprocess.TimeoutExpired:
                pr[5].kill()
                raise ToolError('harness %s timed out' % cmd)
            rc = pr[5].returncode
            got = []
            if os.path.exists(outp):
                with open(outp) as f:
                    got = [json.loads(l) for l in f if l.strip()]
            done = len(got) + len(pr[4])
            if rc == 0 and done >= len(ch):
                break
            if rc == 2:
                raise ToolError('harness usage error: ' + err.decode('utf-8', 'replace')[-500:])
            # the process died while handling record number `done` (0-based within the chunk)
            if done >= len(ch):
                break
            pr[4].append((done, {'id': ch[done].get('id'), 'crash': rc, 'stderr': err.decode('utf-8', 'replace')[-300:]}))
            pr[3] = done + 1
            if pr[3] >= len(ch):
                break
            start(pr)
        # merge crash records into position
        with open(outp) as f:
            got = [json.loads(l) for l in f if l.strip()] if os.path.exists(outp) else []
        res = []
        gi = 0
        crashes = dict(pr[4])
        for i in range(len(ch)):
            if i in crashes:
                res.append(crashes[i])
            else:
                res.append(got[gi])
                gi += 1
        pr.append(res)
    out = [None] * n
    for j, pr in enumerate(procs):
        for k, r in enumerate(pr[-1]):
            out[j + k * jobs] = r
    # a death of the harness process is attributed to the record it was handling only if it happens again when that record is run alone in a fresh process
    # (a crash caused by the code under test is deterministic; under memory pressure a process can also be killed from outside - seen once in 417 000 programs)
    if _confirm:
        for i, r in enumerate(out):
            if r is not None and r.get('crash') is not None:
                again = run_harness(exe, cmd, [records[i]], workdir, tag='%s.again%d' % (tag, i), timeout=timeout, jobs=1, _confirm=False)
                if again and again[0] is not None and again[0].get('crash') is None:
                    out[i] = again[0]
    return out


# ------------------------------------------------------------------ TLC
TLC_STATS = re.compile(r'(\d+) states generated, (\d+) distinct states found, (\d+) states left on queue')


class TLCResult:
    def __init__(self):
        self.states = 0          # distinct states
        self.transitions = 0     # states generated
        self.lines = {}          # tag -> list of parsed JSON payloads
        self.stdout = ''
        self.ok = False
        self.wall = 0.0


def _unquote_tla(s):
    # TLC prints strings with \" and \\ escapes
    out = []
    i = 0
    while i < len(s):
        c = s[i]
        if c == '\\' and i + 1 < len(s):
            nx = s[i + 1]
            out.append({'n': '\n', 't': '\t'}.get(nx, nx))
            i += 2
        else:
            out.append(c)
            i += 1
    return ''.join(out)


TAGLINE = re.compile(r'^<<"([A-Z]+)", "(.*)">>$')


def tlc(module, cfg=None, env=None, workers=4, timeout=900, heap='4g', tag=None, simulate=None, extra=None, dfs=False):
    """Run TLC on /verif/spec/<module>.tla.  Returns TLCResult; raises ToolError on TLC errors
    (parse errors, evaluation errors, invariant violations that are not expected by the caller are
    reported through .stdout / .ok)."""
    tag = tag or module
    meta = os.path.join(BUILD, 'tlc', '%s-%d-%d' % (tag, os.getpid(), int(time.time() * 1000) % 100000))
    os.makedirs(meta, exist_ok=True)
    e = dict(os.environ)
    if env:
        e.update(env)
    jopts = ['-Xss512m', '-Xmx' + heap, '-XX:+UseParallelGC', '-Dfile.encoding=UTF-8', '-Djava.io.tmpdir=' + meta]      # (TLC and SANY leave a temporary directory per run: keep it under the run's own directory, which is removed)
    if dfs:
        jopts.append('-Dtlc2.tool.queue.IStateQueue=StateDeque')
    cmd = ['java'] + jopts + ['-cp', TLA_CP, 'tlc2.TLC', '-workers', str(workers), '-metadir', meta,
                               '-noGenerateSpecTE', '-config', os.path.join(SPEC, (cfg or module) + '.cfg')]
    if simulate:
        cmd += ['-simulate', simulate]
    if extra:
        cmd += extra
    cmd.append(os.path.join(SPEC, module + '.tla'))
    t0 = time.time()
    try:
        p = subprocess.run(cmd, env=e, cwd=SPEC, stdout=subprocess.PIPE, stderr=subprocess.STDOUT, text=True, timeout=timeout)
    except subprocess.TimeoutExpired:
        rm(meta)
        raise ToolError('TLC timed out on %s after %ds' % (module, timeout))
    finally:
        pass
    rm(meta)
    r = TLCResult()
    r.wall = time.time() - t0
    r.stdout = p.stdout
    for line in p.stdout.splitlines():
        m = TAGLINE.match(line)
        if m:
            try:
                r.lines.setdefault(m.group(1), []).append(json.loads(_unquote_tla(m.group(2))))
            except Exception:
                r.lines.setdefault('BAD', []).append(line)
            continue
        m = TLC_STATS.search(line)
        if m:
            r.transitions = int(m.group(1))
            r.states = int(m.group(2))
    r.ok = ('Model checking completed. No error has been found.' in p.stdout) or (simulate is not None and p.returncode == 0)
    r.returncode = p.returncode
    return r


def tlc_or_die(*a, **k):
    r = tlc(*a, **k)
    if not r.ok:
        tail = '\n'.join([l for l in r.stdout.splitlines() if not l.startswith('<<"')][-40:])
        raise ToolError('TLC did not complete cleanly on %s:\n%s' % (a[0], tail))
    return r


# ------------------------------------------------------------------ findings / evidence / verdicts
def load_findings():
    p = os.path.join(VERIF, 'known_findings.json')
    if not os.path.exists(p):
        return []
    with open(p) as f:
        return json.load(f).get('findings', [])


class Check:
    """Collects what one check run covered and found; writes evidence + replay files; sets the exit code."""

    def __init__(self, pid, tier):
        self.pid = pid
        self.tier = tier
        self.t0 = time.time()
        self.states = 0
        self.transitions = 0
        self.traces = 0
        self.evaluations = 0
        self.distinct = set()
        self.samples = []
        self.violations = []
        self.known = []
        self.notes = {}
        self.exhaustive = None
        self.rule = ''
        self.assumptions = []
        self.findings = [f for f in load_findings() if f.get('property') == pid and f.get('status') == 'known']

    def add_tlc(self, r):
        self.states += r.states
        self.transitions += r.transitions

    def sample(self, s, limit=6):
        if len(self.samples) < limit:
            self.samples.append(s)

    def count(self, key):
        self.distinct.add(key)

    def violation(self, what, replay):
        """what: short description; replay: dict written to /verif/replays/<id>/...; a listed known finding
        (matched by its signature predicate) is reported as KNOWN-FINDING instead."""
        sig = replay.get('signature', {})
        for f in self.findings:
            fs = f.get('signature', {})
            if fs and all(sig.get(k) == v for k, v in fs.items()):
                if f['id'] not in [k['id'] for k in self.known]:
                    self.known.append(f)
                return
        d = os.path.join(VERIF, 'replays', self.pid)
        os.makedirs(d, exist_ok=True)
        h = hashlib.sha1(json.dumps(replay, sort_keys=True).encode()).hexdigest()[:12]
        path = os.path.join(d, '%s-%s.json' % (self.tier, h))
        replay = dict(replay)
        replay['property'] = self.pid
        replay['what'] = what
        with open(path, 'w') as f:
            json.dump(replay, f, indent=1)
        self.violations.append((what, path))

    def finish(self, level='model_checking'):
        wall = time.time() - self.t0
        cov = {
            'states': self.states, 'transitions': self.transitions,
            'traces_validated_against_impl': self.traces,
            'evaluations': max(self.evaluations, self.traces),
            'distinct_nontrivial': len(self.distinct),
            'rule': self.rule,
            'samples': self.samples if self.samples else ['(no sample recorded)'],
        }
        if self.exhaustive is not None:
            cov['exhaustive'] = self.exhaustive
        cov.update(self.notes)
        ev = {'property_id': self.pid, 'tier': self.tier, 'seed': seed(), 'level': level, 'coverage': cov,
              'assumptions': self.assumptions, 'wall_s': round(wall, 2), 'violations': len(self.violations)}
        os.makedirs(os.path.join(VERIF, 'evidence'), exist_ok=True)
        with open(os.path.join(VERIF, 'evidence', self.pid + '.json'), 'w') as f:
            json.dump(ev, f, indent=1)
        for k in self.known:
            print('KNOWN-FINDING: property=%s %s' % (self.pid, k.get('what', k.get('id'))))
        seen = set()
        for what, path in self.violations[:50]:
            if path in seen:
                continue
            seen.add(path)
            print('VIOLATION property=%s replay=%s  (%s)' % (self.pid, path, what))
        print('[%s %s] states=%d transitions=%d traces=%d distinct=%d violations=%d known=%d wall=%.1fs' % (
            self.pid, self.tier, self.states, self.transitions, self.traces, len(self.distinct), len(self.violations), len(self.known), wall))
        sys.stdout.flush()
        return 1 if self.violations else 0


def write_ndjson(path, recs):
    with open(path, 'w') as f:
        for r in recs:
            f.write(json.dumps(r, separators=(',', ':')) + '\n')


def corpus_sources():
    """the in-repo FML sources: tests/**/*.fml and examples/*.fml"""
    fs = sorted(glob.glob(os.path.join(REPO, 'tests', '**', '*.fml'), recursive=True)) + sorted(glob.glob(os.path.join(REPO, 'examples', '*.fml')))
    out = []
    for f in fs:
        try:
            out.append((os.path.relpath(f, REPO), open(f, encoding='utf-8').read()))
        except Exception:
            pass
    return out
