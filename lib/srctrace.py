"""impl -> spec for whole programs: run the README semantics (FMLSource) on ASTs with TLC and let it
compare with the recorded outcome of the real pipeline (TraceSource.tla)."""
import os, json
from concurrent.futures import ThreadPoolExecutor
from common import tlc_or_die, write_ndjson, ToolError


# the children of a node in TEXTUAL order (= evaluation order); every other key keeps its place after them.  (A tree that comes from the harness as JSON has its keys in
# alphabetical order - args before o, init before size, a before c - so the order must not be taken from the dictionary: found in the last hours, see DESIGN 11.4)
CHILD_ORDER = {'MCall': ['o', 'args'], 'Index': ['o', 'i'], 'SetIndex': ['o', 'i', 'e'], 'GetField': ['o'], 'SetField': ['o', 'e'], 'If': ['c', 'a', 'b'], 'While': ['c', 'b'],
               'Array': ['size', 'init'], 'Object': ['parent', 'members'], 'Call': ['args'], 'Print': ['args'], 'Fun': ['body'], 'Block': ['es'], 'Top': ['es'], 'Let': ['e'], 'Assign': ['e']}


def _ordered_items(e):
    first = [k for k in CHILD_ORDER.get(e.get('t'), []) if k in e]
    return [(k, e[k]) for k in first] + [(k, v) for k, v in e.items() if k not in first]


def number(ast):
    """preorder numbering of AST nodes (textual position); returns a new tree"""
    c = [0]

    def go(e):
        if isinstance(e, dict):
            if e.get('t') == 'Let' and 'e' in e:
                # a let becomes visible after its initializer: number it after the initializer's nodes
                out = {}
                for k, v in _ordered_items(e):
                    if k != 'id' and not k.startswith('_'):
                        out[k] = go(v)
                c[0] += 1
                out['id'] = c[0]
                return out
            c[0] += 1
            out = {'id': c[0]}
            for k, v in _ordered_items(e):
                if k != 'id' and not k.startswith('_'):
                    out[k] = go(v)
            return out
        if isinstance(e, list):
            return [go(x) for x in e]
        return e
    return go(ast)


def names_of(ast):
    s = set(['get', 'set', 'this'])

    def go(e):
        if isinstance(e, dict):
            if isinstance(e.get('n'), str):
                s.add(e['n'])
            for p in e.get('params', []) or []:
                s.add(p)
            for v in e.values():
                go(v)
        elif isinstance(e, list):
            for x in e:
                go(x)
    go(ast)
    return [{'s': n, 'b': list(n.encode('utf-8'))} for n in sorted(s)]


def status_of(o):
    """harness `run` record -> (status, out) as the specification sees it; status None = not judged (driver budget)"""
    if o.get('crash') is not None:
        return 'crash', []
    if o.get('parse') != 'ok' or o.get('compile') != 'ok' or o.get('ser', 'ok') != 'ok' or o.get('load', 'ok') != 'ok':
        return 'reject', []
    run = o.get('run')
    if run is None:
        return None, []
    if run.get('init') != 'ok':
        return 'reject', run.get('out', [])
    if run.get('diverged'):
        return None, run.get('out', [])
    if run.get('ok'):
        return 'ok', run['out']
    return 'fail', run['out']


def source_record(i, ast, status, out, mode='holder', wantshapes=False, proc=None):
    """proc = None (in-process observation) or {'errempty': bool} for a command-line observation"""
    return {'id': i, 'ast': number(ast), 'names': names_of(ast), 'mode': mode, 'status': status, 'out': out, 'wantshapes': wantshapes,
            'hasproc': proc is not None, 'errempty': bool(proc['errempty']) if proc else True}


def validate(records, workdir, tag='src', per_batch=120, jvms=4, workers=4, budget=20000, timeout=1800):
    batches = [records[i:i + per_batch] for i in range(0, len(records), per_batch)]
    results = []

    def one(bi):
        path = os.path.join(workdir, '%s.batch%d.ndjson' % (tag, bi))
        for rec in batches[bi]:
            rec['budget'] = budget
        write_ndjson(path, batches[bi])
        r = tlc_or_die('TraceSource', env={'PROGS': path}, workers=workers, timeout=timeout, tag='%s%d' % (tag, bi))
        vs = r.lines.get('VERDICT', [])
        ids = {v['id'] for v in vs}
        if len(ids) != len(batches[bi]):
            raise ToolError('TraceSource produced %d verdicts for %d programs (batch %d)\n%s' % (len(ids), len(batches[bi]), bi, r.stdout[-1500:]))
        return r, vs
    with ThreadPoolExecutor(max_workers=jvms) as ex:
        outs = list(ex.map(one, range(len(batches))))
    verdicts = {}
    for r, vs in outs:
        results.append(r)
        for v in vs:
            verdicts[v['id']] = v
    return verdicts, results
